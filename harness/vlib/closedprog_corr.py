"""
vlib.closedprog_corr -- whole-simulation correspondence between atomica's Model RUN WITH A PROGRAM SET and the closed-loop Lean
model with programs, `Atomica.ClosedProg.simulate` (lean/AtomicaModel/ClosedProg.lean).

For a generated small model WITH a generated program set and instructions the REAL
`Model(settings, framework, parset, progset, instructions).process()` is run; the closed-loop specification of vlib.closed_corr
(net, characteristics, every parameter with series / scale / limits / function tree / aggregation terms, execution order, grid,
pre-flush stocks) is extracted from the built objects and extended by the program layer (per program: target compartments,
spending / unit cost / capacity-constraint series, one-off, constraint units, the three overwrites of the instructions; per
(parameter, population): the Covout; start / stop year; per parameter: units for the program conversion, membership of
`_exec_order['dynamic_pars']`, output-only flag) -- all exact rationals -- and sent to the driver (`cpsim`).  EVERY stock row, EVERY
link flow and EVERY parameter value the model has a value for is compared at EVERY computed index (tolerances as closed_corr).
Nothing the implementation computed during the run is fed into the model.

On a disagreement the direct oracles are evaluated on the implementation alone:
  * C09  prefix: the same model re-run WITHOUT programs must have identical outputs at every index with t < start_year;
  * C13  `params_corr.direct_oracle_c13`: par.vals[ti] == clip(convert(get_outcome(Result.get_coverage('fraction')[ti])));
  * C13  conversion: par.vals[ti] == clip(convert(outcome that ProgramSet.get_outcomes returned in that step));
  * C13  coverage: the coverage handed to get_outcomes == the documented rule on this step's spending / unit cost / constraint /
         overwrites and the CURRENT sizes of the target compartments (independent float recomputation, own stepped look-up);
  * C06  untargeted: limits, function value = clip(scale*f(own arrays)), data value = clip(interp*y_factor*meta) for every
         parameter that is not overwritten at that index;
  * the engine oracles of vlib.engine_corr
-> `ctx.violation` if one fails, else `ctx.brk("correspondence", ...)`.

Saturation is excluded (exp is not rational-closed): generated program sets have none; a program set with saturation data is
counted `closedprog.unsupported.saturation` and not compared.
"""
from __future__ import annotations

import math
import random as _random
import types
from fractions import Fraction

import numpy as np

from . import closed_corr, core, engine_corr, genfw, params_corr
from .closed_corr import Unsupported
from .core import q, unq

RTOL = closed_corr.RTOL
DUST = closed_corr.DUST
BUDGET_BITS = closed_corr.BUDGET_BITS


def cpsim_req(tokens, budget=None):
    return f"cpsim {BUDGET_BITS if budget is None else budget} {tokens}"


def fr(x):
    return Fraction(*float(x).as_integer_ratio())


# ----------------------------------------------------------------------------------------------
# generation
# ----------------------------------------------------------------------------------------------
def enrich_targets(spec, r):
    """a non-transition data parameter that a program will target, with function parameters that read it: a link-driving one (evaluated
    from the overwritten value in the same step), optionally through an intermediate non-transition function parameter (chain two
    deep), and an output-only one (evaluated after the run); `aux0` of closed_corr.enrich becomes targetable (non-number format)"""
    pops = spec["pops"]
    stocks = [c["name"] for c in spec["comps"] if c["kind"] == "normal"]
    prefer = []
    P = lambda name, fmt, **kw: dict({"name": name, "format": fmt, "timescale": None, "function": None, "min": None, "max": None, "timed": False, "targetable": False, "databook": True, "value": {}}, **kw)
    for p in spec["pars"]:
        if p["name"] == "aux0" and r.random() < 0.5:
            p["format"] = r.choice(["probability", "proportion", "rate"])
            prefer.append("aux0")
    if r.random() < 0.6:
        spec["pars"].append(P("xd0", r.choice(["probability", "proportion", "rate"]), value={pop: round(0.05 + 0.8 * r.random(), 3) for pop in pops}))
        prefer.append("xd0")
        src = "xd0"
        if r.random() < 0.35:
            spec["pars"].append(P("xb0", "proportion", function=r.choice(["2*xd0", "xd0+0.1", "min(xd0, 0.5)"]), databook=False))
            src = "xb0"
            if r.random() < 0.3:
                prefer.append("xb0")  # the intermediate function parameter itself is targeted as well
        plain = [p for p in spec["pars"] if not p.get("timed") and not p.get("function") and p["format"] in ("rate", "probability") and any(t[2] == p["name"] for t in spec["transitions"])]
        if plain:
            tgt = r.choice(plain)
            a = r.choice(stocks)
            tgt["function"] = r.choice([f"0.5*{src}", f"{src}+0.01", f"{src}*{a}/(alive+1)", f"max({src}-0.1, 0)"])
            tgt["databook"] = r.random() < 0.4
            if not tgt["databook"]:
                tgt["value"] = {}
        if r.random() < 0.4:
            spec["pars"].append(P("xo1", "proportion", function=r.choice([f"{src}*2+0.125", "xd0+0.25"]), databook=False))
    return prefer


def gen_progspec(r, spec, force_t0=False, prefer=()):
    """a JSON-able progspec (format of params_corr.build_progset) for `spec`; marks the targeted parameters `targetable` and
    sometimes gives them limits that the converted outcomes cross.  No saturation."""
    pops = spec["pops"]
    start, end, dt = spec["settings"]
    kinds = {c["name"]: c["kind"] for c in spec["comps"]}
    stocks = [c for c, k in kinds.items() if k == "normal"]
    juncs = [c for c, k in kinds.items() if k == "junction"]
    trans = spec["transitions"]
    has_link = lambda p: any(t[2] == p["name"] for t in trans)
    aggs = [p for p in spec["pars"] if not p.get("timed") and (p.get("function") or "").startswith(("SRC_", "TGT_"))]
    cand = [p for p in spec["pars"] if not p.get("timed") and p["name"] not in ("out0",) and not (p["format"] == "number" and not has_link(p)) and p not in aggs and not p.get("derivative")]
    r.shuffle(cand)
    cand = [p for p in cand if p["name"] in prefer] + [p for p in cand if p["name"] not in prefer]
    chosen, seen = [], set()
    want = r.choice([1, 2, 2, 3, 4])
    for p in cand:
        kind = (p["format"], bool(p.get("function")))
        if kind not in seen or r.random() < 0.25:
            chosen.append(p)
            seen.add(kind)
        if len(chosen) >= want:
            break
    if aggs and r.random() < 0.2:
        agg = r.choice(aggs)  # a targeted aggregation: the aggregation is written after the program stage
        if agg["format"] == "number" and not has_link(agg):
            agg["format"] = "proportion"  # a number parameter without links has no source population (ModelError when targeted)
        chosen.append(agg)
    skip_flag = chosen[0] if (len(chosen) > 1 and not chosen[0].get("function") and r.random() < 0.08) else None
    for p in chosen:
        # (rarely one data parameter keeps `targetable = n` although a covout refers to it: its name is then not in `dynamic_pars`,
        #  the loop never visits it and the covout has no effect)
        p["targetable"] = p is not skip_flag
        if r.random() < 0.45:
            if p["format"] == "number":
                p["min"], p["max"] = r.choice([None, 1.0, 5.0]), r.choice([None, 20.0, 60.0])
            elif p["format"] in ("probability", "rate"):
                p["min"], p["max"] = r.choice([None, 0, 0.1]), r.choice([None, 0.5, 1, 2])
            elif p["format"] == "duration":
                p["min"], p["max"] = r.choice([0.05, 0.8]), r.choice([None, 1.5, 4.0])
            elif p["format"] == "proportion":
                p["min"], p["max"] = r.choice([0, 0, 0.2]), r.choice([None, 0.8, 1])
    nprog = r.choice([1, 2, 3, 3])
    programs = []
    for k in range(nprog):
        one_off = r.random() < 0.55
        tp = r.sample(pops, r.randint(1, len(pops)))
        tc = r.sample(stocks, r.randint(1, min(3, len(stocks))))
        if juncs and r.random() < 0.08:
            tc.append(r.choice(juncs))
        uc = r.choice([1.0, 2.5, 10.0, 40.0])
        level = r.choice([0.0, 20.0, 100.0, 400.0, 2000.0, 1e4]) * uc * (1.0 if not one_off else 0.3 / max(dt, 0.05))
        prog = {"name": f"P{k}", "pops": tp, "comps": tc, "uc_units": r.choice(["$/person", "$/person (one-off)"]) if one_off else "$/person/year", "cc_units": r.choice(["people/year", "people"]),
                "spend": params_corr._ser(r, lambda rr, level=level: float(level * rr.choice([0.0, 0.5, 1.0, 1.0, 2.0])), start, end),
                "uc": params_corr._ser(r, lambda rr, uc=uc: float(uc * rr.choice([1.0, 1.0, 0.5, 2.0])), start, end), "cc": None, "sat": None}
        if r.random() < 0.3:
            prog["cc"] = params_corr._ser(r, lambda rr: float(rr.choice([0.0, 10.0, 50.0, 300.0, 5000.0])), start, end)
        programs.append(prog)
    covouts = []
    for p in chosen:
        for pop in pops:
            if len(pops) > 1 and r.random() < 0.3:
                continue  # this population is not targeted
            progs_ = r.sample(programs, r.randint(1, min(3, len(programs))))
            fmt = p["format"]

            def gv():
                if fmt == "number":
                    return r.choice([0.0, 0.02, 0.1, 0.5, 1.0]) * dt
                if fmt in ("probability", "rate"):
                    return r.choice([0.0, 0.05, 0.2, 0.7, 1.0, 3.0]) * dt
                if fmt == "duration":
                    return r.choice([0.5, 1.0, 2.0, 6.0])
                return r.choice([0.0, 0.1, 0.5, 0.8, 1.0, 1.4])

            outs = {pr["name"]: float(gv()) for pr in progs_}
            c = {"par": p["name"], "pop": pop, "inter": r.choice(["additive", "nested", "random", None]), "imp": None, "baseline": float(gv()), "progs": outs}
            if len(outs) >= 2 and r.random() < 0.35:
                ks = list(outs)
                sub = r.sample(ks, r.randint(2, len(ks)))
                c["imp"] = "+".join(sub) + "=" + repr(float(gv()))
            covouts.append(c)
    npts = int(round((end - start) / dt)) + 1
    on_grid = [start + k * dt for k in range(npts)]
    if force_t0:
        st = r.choice([start, start - 1.0])
    else:
        st = r.choice([start, start - 1.0, on_grid[min(1, npts - 1)], r.choice(on_grid), r.choice(on_grid), r.choice(on_grid) + 0.4 * dt, on_grid[npts // 2], on_grid[npts // 2] - 0.5 * dt])
    stop = r.choice([None, None, None, st + 2 * dt, st + 3.5 * dt, max(r.choice(on_grid), st + dt), end, st])
    instr = {"start": float(st), "stop": None if stop is None else float(stop), "alloc": {}, "capacity": {}, "coverage": {}}

    def ov_series(vals):
        """an overwrite series: as the program book series, or (half of the time) a value in force from before the run and a change
        dated at a grid point inside the run ("a change dated Y in a series that also states the value in force before Y")"""
        if r.random() < 0.5:
            return params_corr._ser(r, lambda rr: float(rr.choice(vals)), start, end)
        a, b = r.sample(vals, 2)
        return {"a": None, "t": [start - 1.0, r.choice(on_grid[1:] or on_grid)], "v": [float(a), float(b)]}

    for prog in programs:
        if r.random() < 0.3:
            instr["alloc"][prog["name"]] = ov_series([0.0, 100.0, 1000.0, 5e4])
        if r.random() < 0.2:
            instr["capacity"][prog["name"]] = ov_series([0.0, 10.0, 100.0, 1000.0])
        if r.random() < 0.25:
            instr["coverage"][prog["name"]] = ov_series([0.0, 0.3, 0.8, 1.0, 2.5])
    return {"programs": programs, "covouts": covouts, "instr": instr}


def gen_spec(r, regime):
    feats = closed_corr.gen_features(r)
    force_t0 = r.random() < 0.25
    if force_t0:
        # a program active at index 0 with a junction initialised: the two parameter updates of index 0 see different states
        feats["junctions"] = max(1, feats["junctions"])
        feats["jinit"] = 1.0
    spec = genfw.random_spec(r, regime, feats)
    spec = closed_corr.enrich(spec, r)
    if r.random() < 0.2:
        # derivative parameters next to the program layer (never targeted themselves: a covout on one overwrites the rate `_dx`)
        spec = closed_corr.enrich_derivative(spec, r, regime)
    prefer = enrich_targets(spec, r)
    spec["progspec"] = gen_progspec(r, spec, force_t0, prefer)
    if r.random() < 0.2:
        # parameter scenarios on function parameters (skip windows) next to the program layer: inside the window a targeted parameter
        # still takes the program value while programs are active, an untargeted one the scenario value
        spec = closed_corr.enrich_scenarios(spec, r, regime)
    return spec


def build_and_run(spec, progs=True):
    """the REAL model: Model(settings, fw, parset, progset, instructions).process(), observed from outside only
    (stocks / parameter values before the initial flush; what ProgramSet.get_outcomes received and returned in every step)"""
    from atomica.model import Model

    fw, data, parset, settings = genfw.build(spec)
    progset = instr = None
    if progs and spec.get("progspec"):
        progset, instr = params_corr.build_progset(spec["progspec"], fw, data)
    m = Model(settings, fw, parset, progset, instr)
    m._verif_parset, m._verif_fw = parset, fw
    pre, calls = {}, {}
    orig_flush = m.flush_junctions

    def wrapped():
        pre["stock"] = genfw.snapshot_stock(m, 0)
        pre["pv"] = {par.id: float(par.vals[0]) for pop in m.pops for par in pop.pars if par.vals is not None}
        orig_flush()

    m.flush_junctions = wrapped
    ps = m.progset
    if ps is not None:
        orig_go = ps.get_outcomes

        def go(prop_coverage):
            out = orig_go(prop_coverage)
            calls.setdefault(m._t_index, []).append(({k: float(np.asarray(v, dtype=float).ravel()[0]) for k, v in prop_coverage.items()}, {k: float(v) for k, v in out.items()}))
            return out

        ps.get_outcomes = go
    try:
        with np.errstate(all="ignore"):
            m.process()
    finally:
        if ps is not None:
            try:
                del ps.get_outcomes
            except AttributeError:
                pass
    m._verif_preflush = pre
    m._verif_calls = calls
    return m


def gen_model(r, regime, tries=30):
    import atomica as at
    from atomica.model import BadInitialization

    last = None
    for _ in range(tries):
        spec = gen_spec(r, regime)
        try:
            return spec, build_and_run(spec)
        except (at.InvalidFramework, BadInitialization, AssertionError, at.ModelError) as e:
            last = e
        except Exception as e:  # e.g. a circular dependency created by enrich
            last = e
    raise RuntimeError(f"closedprog_corr generator: no acceptable model in {tries} tries; last {type(last).__name__}: {str(last)[:160]}")


# ----------------------------------------------------------------------------------------------
# extraction
# ----------------------------------------------------------------------------------------------
def snapper(m):
    """A year that IS a point of the float time vector (`t == m.t[k]`) means "index k": it is sent to the model as the exact grid
    point `t[0] + k*dt` (the model's time of index k), any other year as the exact value of the float."""
    grid = {float(t): k for k, t in enumerate(m.t)}
    t0, dt = fr(m.t[0]), fr(m.dt)

    def snap(t):
        t = float(t)
        return t0 + grid[t] * dt if t in grid else fr(t)

    return snap


def _series_tokens(ts, snap):
    """Coverage.Series on the wire: <assumption|none> <n> t1 v1 ... (times strictly increasing, finite)"""
    asm = ts.assumption
    a = "none" if (asm is None or (isinstance(asm, float) and math.isnan(asm))) else q(float(asm))
    pts = [(float(t), float(v)) for t, v in zip(ts.t, ts.vals)]
    if any(not math.isfinite(t) or not math.isfinite(v) for t, v in pts):
        raise Unsupported("nan-in-program-series")
    pts = [(snap(t), v) for t, v in pts]
    if any(pts[i][0] >= pts[i + 1][0] for i in range(len(pts) - 1)):
        raise Unsupported("unsorted-program-series")
    out = [a, str(len(pts))]
    for t, v in pts:
        out += [q(t), q(v)]
    return out


def _opt_series(ts, snap):
    return ["0"] if ts is None else ["1"] + _series_tokens(ts, snap)


def extract_p(m):
    """closed_corr.extract of the same Model (program objects hidden from it) + the program layer"""
    from atomica import model as M

    ps, instr = m.progset, m.program_instructions
    if ps is None or instr is None:
        raise Unsupported("no-programs")
    saved = m.program_instructions
    m.program_instructions = None  # closed_corr.extract refuses models with programs; the base specification does not depend on them
    try:
        ex = closed_corr.extract(m)
    finally:
        m.program_instructions = saved
    net, pars = ex["net"], ex["pars"]
    cidx = {id(c): i for i, c in enumerate(net["comps"])}
    pidx = {id(p): i for i, p in enumerate(pars)}
    snap = snapper(m)
    toks = [ex["tokens"], q(snap(instr.start_year)), "-" if math.isinf(float(instr.stop_year)) else q(snap(instr.stop_year))]
    prog_names = list(ps.programs.keys())
    toks.append(str(len(prog_names)))
    targets = {}
    for name in prog_names:
        prog = ps.programs[name]
        if prog.saturation.has_data:
            raise Unsupported("saturation")
        if not prog.spend_data.has_data or not prog.unit_cost.has_data:
            raise Unsupported("program-without-spending-or-unit-cost")
        tcs = [cidx[id(m.get_pop(pn).get_comp(cn))] for pn in prog.target_pops for cn in prog.target_comps]
        targets[name] = tcs
        toks += ["1" if prog.is_one_off else "0", "1" if "/year" in prog.capacity_constraint.units else "0", str(len(tcs))] + [str(c) for c in tcs]
        toks += _series_tokens(prog.spend_data, snap) + _series_tokens(prog.unit_cost, snap)
        toks += _opt_series(prog.capacity_constraint if prog.capacity_constraint.has_data else None, snap)
        for d in (instr.alloc, instr.capacity, instr.coverage):
            toks += _opt_series(d[name] if name in d else None, snap)
    covs = []
    for (pname, popname), co in ps.covouts.items():
        try:
            par = m.get_pop(popname).get_par(pname)
        except Exception:
            continue
        if any(n not in prog_names for n in co.progs):
            raise Unsupported("covout-with-unknown-program")
        if par.derivative:
            raise Unsupported("covout-on-derivative-parameter")   # the program overwrites `_dx`, not the value (wfPSpec refuses it)
        names = list(co.progs.keys())
        exl = params_corr.parse_imp(co.imp_interaction, names)
        t = [str(pidx[id(par)]), co.cov_interaction, q(float(co.baseline)), str(len(names))]
        for n in names:
            t += [str(prog_names.index(n)), q(float(co.progs[n]))]
        t.append(str(len(exl)))
        for b, v in exl:
            t += [str(b), q(float(v))]
        covs.append((par, co, t))
    toks.append(str(len(covs)))
    for _, _, t in covs:
        toks += t
    dyn = set(m._exec_order["dynamic_pars"])
    for p in pars:
        post = bool(p.fcn_str) and not p._is_dynamic and not p._precompute
        toks += [params_corr.units_code(p.units), "1" if p.name in dyn else "0", "1" if post else "0"]
    ex = dict(ex)
    ex["tokens"] = " ".join(toks)
    ex["prog_names"], ex["prog_targets"], ex["covouts"] = prog_names, targets, [(par, co) for par, co, _ in covs]
    return ex


# ----------------------------------------------------------------------------------------------
# discontinuities of the rules (dust vs exact zero; float grid vs exact grid)
# ----------------------------------------------------------------------------------------------
def breakpoints(m):
    ps, instr = m.progset, m.program_instructions
    out = {float(instr.start_year)}
    if math.isfinite(float(instr.stop_year)):
        out.add(float(instr.stop_year))
    for prog in ps.programs.values():
        for ts in (prog.spend_data, prog.unit_cost, prog.capacity_constraint):
            out |= {float(t) for t in ts.t}
    for d in (instr.alloc, instr.capacity, instr.coverage):
        for ts in d.values():
            out |= {float(t) for t in ts.t}
    return out


def grid_ambiguous(m):
    """the float time vector and the exact grid `start + i*dt` of the model fall on different sides of a breakpoint of the program layer
    (start / stop year, a dated point of a stepped series): the rules are discontinuous there, no claim"""
    t0, dt = fr(m.t[0]), fr(m.dt)
    snap = snapper(m)
    bps = [(b, snap(b)) for b in breakpoints(m)]
    for i in range(len(m.t)):
        tf, te = float(m.t[i]), t0 + i * dt
        for bf, be in bps:
            if (tf < bf) != (te < be) or (tf <= bf) != (te <= be):
                return True
    return False


def covout_ambiguous(m, ex, entries_covs):
    """rounding decides the code's sort by |outcome - baseline| or the `sum(cov) > 1` branch differently from exact arithmetic"""
    for _par, co in ex["covouts"]:
        if not params_corr.covout_order_consistent(co):
            return "covout_order"
        if co.cov_interaction == "additive" and len(co.progs) >= 2:
            idx = [ex["prog_names"].index(n) for n in co.progs]
            for covs in entries_covs:
                if covs and all(covs[k] is not None for k in idx):
                    s = sum((covs[k] for k in idx), Fraction(0))
                    if s != 1 and abs(float(s) - 1.0) < 1e-9:
                        return "covout_sum"
    return None


def is_active(m, ti):
    instr = m.program_instructions
    return bool(m.progset is not None and instr is not None and instr.start_year <= float(m.t[ti]) <= instr.stop_year)


def eligible_dust(m, ex, ti, mstock, mcov):
    """The eligible population of a program is floating-point dust on one side and exactly 0 on the other (capacity/eligible jumps to
    "everybody covered" at 0), the coverage of exactly those programs differs between model and implementation, and every other
    program's coverage agrees: the disagreement is downstream of that discontinuity."""
    calls = m._verif_calls.get(ti)
    if not calls or mstock is None or mcov is None:
        return False
    used_cov = calls[-1][0]
    dusty, others_ok = False, True
    for k, name in enumerate(ex["prog_names"]):
        tcs = ex["prog_targets"][name]
        ei = sum(float(ex["net"]["comps"][c].vals[ti]) for c in tcs)
        em = float(sum((sum(mstock[c], Fraction(0)) for c in tcs), Fraction(0)))
        is_dust = (abs(ei) < 1e-9 and abs(em) < 1e-9) and not (ei == 0 and em == 0)
        mc, ic = (mcov[k] if k < len(mcov) else None), used_cov.get(name)
        differs = mc is None or ic is None or abs(float(mc) - ic) > 1e-9
        if is_dust and differs:
            dusty = True
        elif differs:
            others_ok = False
    return dusty and others_ok


def junction_dust(m, ex, ti):
    """the outflow proportions of a junction sum to floating-point dust in the implementation (exactly 0 in exact arithmetic: 0/0, undefined)"""
    from atomica import model as M

    for c in ex["net"]["comps"]:
        if isinstance(c, M.JunctionCompartment):
            tot = sum(float(l.parameter.vals[ti]) for l in c.outlinks if l.parameter is not None)
            if tot != 0 and abs(tot) < 1e-9:
                return True
    return False


# ----------------------------------------------------------------------------------------------
# comparison
# ----------------------------------------------------------------------------------------------
def parse_covs(rep):
    out = []
    for sec in rep.split(" | ")[1:]:
        if sec.startswith("nan"):
            continue
        f = sec.split(" ; ")
        out.append([unq(x) for x in f[3].split()] if len(f) > 3 and f[3].strip() else [])
    return out


def compare_all_pars(m, ex, entries):
    """EVERY parameter value the model has a value for, at every computed index. -> first disagreement or []"""
    for ti, (_s, _f, pv) in enumerate(entries):
        stock = genfw.snapshot_stock(m, ti)
        people = max(1.0, sum(abs(v) for rows in stock for v in rows if math.isfinite(v)))
        for i, p in enumerate(ex["pars"]):
            if p.vals is None or i >= len(pv):
                continue
            mv, iv = pv[i], float(p.vals[ti])
            if mv is None:
                continue  # model: no value (NaN / inf / reads a link flow) = no claim
            if not core.close(mv, iv, scale=0.0, rtol=RTOL, atol=1e-10 * people):
                return [{"t": ti, "kind": "par", "par": i, "what": f"parameter {p.id} at index {ti} (t={float(m.t[ti])!r}, programs {'active' if is_active(m, ti) else 'inactive'}): model {float(mv)!r} impl {iv!r}" + (f" ({p.fcn_str})" if p.fcn_str else " (databook)")}]
    return []


# ----------------------------------------------------------------------------------------------
# direct oracles on the implementation
# ----------------------------------------------------------------------------------------------
def prefix_oracle(spec, m):
    """C09: the run without programs has identical outputs at every index with t < start_year. -> list of (key, what)"""
    from props import c09

    Y = float(m.program_instructions.start_year)
    idx = np.asarray(m.t, dtype=float) < Y
    if not idx.any():
        return []
    m0 = build_and_run(spec, progs=False)
    bad = c09.diff_before(c09.snap(m0), c09.snap(m), idx)
    return [({"oracle": "no_effect_before_start"}, f"output {k} differs from the run without programs before the start year {Y!r}: {w}") for k, w, _ in bad[:3]]


def stepped(ts, t):
    return params_corr.lookup_prev(ts, t)


def coverage_rule(m, prog, ti, elig):
    """the documented coverage of one program at one index, in floating point, from the program book / instructions (own stepped look-up)"""
    instr = m.program_instructions
    t, dt = float(m.t[ti]), float(m.dt)
    one_off = "/year" not in prog.unit_cost.units
    if prog.name in instr.coverage:
        c = stepped(instr.coverage[prog.name], t)
        return None if c is None else min(c * dt if one_off else c, 1.0)
    if prog.name in instr.capacity:
        cap = stepped(instr.capacity[prog.name], t)
        if cap is None:
            return None
        cap = cap * dt if one_off else cap
    else:
        spend = stepped(instr.alloc[prog.name], t) if prog.name in instr.alloc else stepped(prog.spend_data, t)
        uc = stepped(prog.unit_cost, t)
        if spend is None or uc is None or uc == 0:
            return None
        cc = stepped(prog.capacity_constraint, t) if prog.capacity_constraint.has_data else None
        cap = params_corr.spec_capacity(spend, uc, dt, one_off, cc, "/year" in prog.capacity_constraint.units)
    return cap / elig if elig > cap else 1.0


def outcome_rule(co, cov):
    """The documented outcome of one covout for given coverages {program: c}, in floating point, written from the property text (C12):
    baseline + sum over program combinations of weight x combination outcome, where a combination's outcome is the explicit value where
    given and otherwise the member outcome farthest from the baseline; random: independent weights; nested: the best-covered programs
    contain the less covered ones; additive with total coverage <= 1: each program alone.  None where not covered (additive above 100 %)."""
    import itertools

    b = float(co.baseline)
    names = list(co.progs.keys())
    n = len(names)
    if n == 0:
        return b
    delta = {k: float(v) - b for k, v in co.progs.items()}
    c = {k: float(cov[k]) for k in names}
    if n == 1:
        return b + c[names[0]] * delta[names[0]]
    explicit = {}
    if co.imp_interaction and co.imp_interaction.lower() not in ("best", "synergistic"):
        for item in co.imp_interaction.split(","):
            combo, val = item.split("=")
            explicit[frozenset(x.strip() for x in combo.split("+"))] = float(val) - b
    order = sorted(names, key=lambda k: -abs(delta[k]))  # stable: ties keep the dict order

    def g(S):
        if not S:
            return 0.0
        if frozenset(S) in explicit:
            return explicit[frozenset(S)]
        best = None
        for k in order:
            if k in S and (best is None or abs(delta[k]) > abs(delta[best])):
                best = k
        return delta[best]

    if co.cov_interaction == "additive":
        if sum(c.values()) > 1:
            return None
        return b + sum(c[k] * delta[k] for k in names)
    if co.cov_interaction == "random":
        tot = 0.0
        for r_ in range(1, n + 1):
            for S in itertools.combinations(names, r_):
                w = 1.0
                for k in names:
                    w *= c[k] if k in S else (1.0 - c[k])
                tot += w * g(set(S))
        return b + tot
    if co.cov_interaction == "nested":
        asc = sorted(names, key=lambda k: c[k])
        tot, prev = 0.0, 0.0
        for i, k in enumerate(asc):
            tot += (c[k] - prev) * g(set(asc[i:]))
            prev = c[k]
        return b + tot
    return None


def program_oracles(m, ex):
    """C13 on the implementation alone. -> list of (key, what)"""
    from atomica.results import Result

    out = []
    ps, instr = m.progset, m.program_instructions
    calls = m._verif_calls
    run = types.SimpleNamespace(m=m, fw=m._verif_fw, parset=m._verif_parset, progset=ps, instr=instr)
    run.res = Result(model=m, parset=m._verif_parset)
    with np.errstate(all="ignore"):
        run.rep_fraction = run.res.get_coverage("fraction")
    junction_progs = {n for n, tcs in ex["prog_targets"].items() if any(ex["net"]["kinds"][c] in ("j", "r") for c in tcs)}
    T = len(m.t)
    for ti in range(T):
        if not is_active(m, ti):
            if ti in calls:
                out.append(({"oracle": "outcomes_outside_window"}, f"ProgramSet.get_outcomes was called at index {ti} (t={float(m.t[ti])!r}) outside [start_year, stop_year]"))
            continue
        if ti not in calls:
            out.append(({"oracle": "no_outcome_call"}, f"programs are active at index {ti} (t={float(m.t[ti])!r}) but ProgramSet.get_outcomes was not called in that step"))
            continue
        used_cov, used_out = calls[ti][-1]
        # coverage used in the step vs the documented rule on the current target sizes
        for name, tcs in ex["prog_targets"].items():
            prog = ps.programs[name]
            elig = sum(float(ex["net"]["comps"][c].vals[ti]) for c in tcs)
            want = coverage_rule(m, prog, ti, elig)
            got = used_cov.get(name)
            if want is None or got is None or not math.isfinite(want):
                continue
            if abs(elig) < 1e-9 and elig != 0:
                continue
            if abs(want - got) > 1e-9 * max(1.0, abs(want)):
                out.append(({"oracle": "coverage_used"}, f"program {name} at index {ti} (t={float(m.t[ti])!r}): the step used coverage {got!r}; this step's spending / unit cost / constraint / overwrites and the current target sizes ({elig!r} eligible) give {want!r}"))
        # outcome of the step vs the documented combination rule on the coverages of the step
        for par, co in ex["covouts"]:
            o = used_out.get((par.name, par.pop.name))
            if o is None or not math.isfinite(o) or any(not math.isfinite(used_cov.get(k, float("nan"))) for k in co.progs) or not params_corr.covout_order_consistent(co):
                continue
            want = outcome_rule(co, used_cov)
            pool = [float(co.baseline)] + [float(v) for v in co.progs.values()] + [v for _, v in params_corr.parse_imp(co.imp_interaction, list(co.progs.keys()))]
            osc = max([abs(v) for v in pool] + [1e-300])
            if all(0.0 <= used_cov[k] <= 1.0 for k in co.progs) and not (min(pool) - 1e-9 * osc <= o <= max(pool) + 1e-9 * osc):
                out.append(({"oracle": "outcome_hull", "interaction": co.cov_interaction}, f"covout ({par.name}, {par.pop.name}) at index {ti} (t={float(m.t[ti])!r}): get_outcomes returned {o!r} for coverages { {k: used_cov[k] for k in co.progs} }, outside [{min(pool)!r}, {max(pool)!r}] spanned by the baseline, the outcomes {dict(co.progs)!r} and the explicit values {co.imp_interaction!r}"))
            if want is not None and abs(want - o) > 1e-9 * osc:
                out.append(({"oracle": "outcome_rule", "interaction": co.cov_interaction}, f"covout ({par.name}, {par.pop.name}) at index {ti} (t={float(m.t[ti])!r}): get_outcomes returned {o!r} for coverages { {k: used_cov[k] for k in co.progs} }; baseline {co.baseline!r}, outcomes {dict(co.progs)!r}, explicit {co.imp_interaction!r}, {co.cov_interaction} interaction give {want!r}"))
        # stored value vs clip(convert(outcome))
        for par, co in ex["covouts"]:
            if par.name not in m._exec_order["dynamic_pars"] or par.pop_aggregation or par.derivative:
                continue
            if par.fcn_str and not par._is_dynamic and not par._precompute:
                continue
            info = types.SimpleNamespace(name=par.name, pop=par.pop.name, units=params_corr.units_code(par.units), lim=params_corr.par_limits(run, par, None), par=par)
            popsize = float(sum(float(l.source.vals[ti]) for l in par.links)) if (info.units == "n" and par.links) else 0.0
            impl = float(par.vals[ti])
            dt = float(m.dt)
            conv = abs(popsize) / dt if info.units == "n" else (1.0 / dt if info.units == "f" else 1.0)
            osc = max([abs(float(co.baseline))] + [abs(float(v)) for v in co.progs.values()]) * conv
            o = used_out.get((par.name, par.pop.name))
            if o is not None and math.isfinite(o):
                v = o * (popsize / dt) if info.units == "n" else (o / dt if info.units == "f" else o)
                v = params_corr.clip_f(v, info.lim)
                if math.isfinite(v) and abs(v - impl) > 1e-9 * max(abs(v), abs(impl), osc, 1e-300):
                    out.append(({"oracle": "convert_clip", "units": info.units}, f"{par.id} at index {ti} (t={float(m.t[ti])!r}): stored {impl!r} but the outcome of that step {o!r} converted ({info.units}; source population {popsize!r}, dt {dt!r}) and clipped to {par.limits} gives {v!r}"))
            if not (junction_progs & set(co.progs.keys())):
                want, err = params_corr.direct_oracle_c13(run, info, ti, {"popsize": popsize})
                if err is None and want is not None and math.isfinite(want) and abs(want - impl) > 1e-9 * max(abs(want), abs(impl), osc, 1e-300):
                    out.append(({"oracle": "direct_c13", "units": info.units}, f"{par.id} at index {ti} (t={float(m.t[ti])!r}): stored {impl!r} but get_outcome(Result.get_coverage('fraction')) converted and clipped gives {want!r}"))
        if len(out) >= 6:
            break
    return out


def extension_oracles(m, ex):
    """the direct oracles of closed_corr for what the base specification gained: the Euler recurrence of derivative parameters (never
    targeted here) and the scenario value of an UNTARGETED function parameter inside its skip window"""
    out = []
    dyn = set(m._exec_order["dynamic_pars"])
    targeted = {id(par) for par, _ in ex["covouts"] if par.name in dyn}
    parset = m._verif_parset
    tt = np.asarray(m.t, dtype=float)
    for p in ex["pars"]:
        if p.vals is None:
            continue
        v = np.asarray(p.vals, dtype=float)
        if p.derivative and p.fcn_str and p._fcn is not None and id(p) not in targeted:
            bad = closed_corr.derivative_oracle(m, p, v)
            if bad:
                out.append(bad)
        elif p.skip_function and p.fcn_str and id(p) not in targeted and p.name in parset.pars:
            cp = parset.pars[p.name]
            e = cp.interpolate(tt, p.pop.name) * cp.y_factor[p.pop.name] * cp.meta_y_factor
            if p.limits is not None:
                e = np.clip(e, p.limits[0], p.limits[1])
            inside = (tt >= p.skip_function[0]) & (tt <= p.skip_function[1])
            bad = inside & ~(np.isfinite(e) & np.isfinite(v) & (np.abs(e - v) <= 1e-9 * np.maximum(1.0, np.abs(e))))
            if bad.any():
                t = int(np.argmax(bad))
                out.append(({"oracle": "skip-window-value"}, f"parameter {p.id} at index {t} (t={tt[t]!r}) lies inside its skip window {tuple(p.skip_function)} and no program targets it, but it holds {v[t]!r} instead of the scenario value {e[t]!r} ({p.fcn_str})"))
    return out


def untargeted_oracle(m, ex):
    """closed_corr.par_oracle with the overwritten (parameter, index) pairs left out: limits everywhere; function / data value where no
    program applies (C06 / C13 "parameters that no program targets are changed only through the model dynamics")"""
    from atomica import model as M

    out = []
    T = len(m.t)
    dyn = set(m._exec_order["dynamic_pars"])
    targeted = {id(par) for par, _ in ex["covouts"] if par.name in dyn}
    act = [is_active(m, ti) for ti in range(T)]
    parset = m._verif_parset
    for i, p in enumerate(ex["pars"]):
        if p.vals is None:
            continue
        v = np.asarray(p.vals, dtype=float)
        used = i < ex["n_link"] or p._is_dynamic or p._precompute
        # limits given in the wrong order (min > max: the generator can produce them, the library accepts them) leave no admissible value: the direct oracle has
        # nothing to say there (the clip order is still compared through the model, `clipLim`)
        if p.limits is not None and p.limits[0] <= p.limits[1] and np.isfinite(v).all() and (used or id(p) in targeted):
            bad = (v < p.limits[0] - 1e-12) | (v > p.limits[1] + 1e-12)
            if bad.any():
                t = int(np.argmax(bad))
                out.append(({"oracle": "limits"}, f"parameter {p.id} = {v[t]!r} at index {t} is outside its limits {p.limits}"))
                continue
        free = [ti for ti in range(T) if not (id(p) in targeted and act[ti])]
        if p.fcn_str and not p.pop_aggregation and p._fcn is not None and not p.derivative and not p.skip_function and used:
            for ti in free:
                dep_vals, ok = {}, True
                for name, deps in p.deps.items():
                    s = 0.0
                    for dep in deps:
                        if isinstance(dep, M.Link):
                            ok = False
                        elif isinstance(dep, M.Characteristic):
                            s += closed_corr._charac_value(dep, ti)
                        else:
                            s += float(dep.vals[ti])
                    dep_vals[name] = s
                if not ok:
                    break
                dep_vals["t"], dep_vals["dt"] = m.t[ti], m.dt
                try:
                    with np.errstate(all="ignore"):
                        e = float(p.scale_factor * p._fcn(**dep_vals))
                except Exception:
                    break
                if p.limits is not None:
                    e = min(max(e, p.limits[0]), p.limits[1])
                if math.isfinite(e) and math.isfinite(v[ti]) and abs(e - v[ti]) > 1e-9 * max(1.0, abs(e)):
                    out.append(({"oracle": "function-value"}, f"parameter {p.id} at index {ti} (no program overwrite there): stored {v[ti]!r}, but clip(scale*f(dependencies at that index)) = {e!r} ({p.fcn_str})"))
                    break
        elif p.fcn_str is None and p.name in parset.pars and parset.pars[p.name].has_values(p.pop.name):
            cp = parset.pars[p.name]
            e = cp.interpolate(np.asarray(m.t), p.pop.name) * cp.y_factor[p.pop.name] * cp.meta_y_factor
            if p.limits is not None:
                e = np.clip(e, p.limits[0], p.limits[1])
            for ti in free:
                if math.isfinite(e[ti]) and math.isfinite(v[ti]) and abs(e[ti] - v[ti]) > 1e-9 * max(1.0, abs(e[ti])):
                    out.append(({"oracle": "data-value"}, f"data parameter {p.id} at index {ti} (no program overwrite there; programs {'active' if act[ti] else 'inactive'}): stored {v[ti]!r}, but clip(interpolated databook value * y_factor * meta_y_factor) = {e[ti]!r}"))
                    break
    return out


# ----------------------------------------------------------------------------------------------
# the check
# ----------------------------------------------------------------------------------------------
def features_p(m, ex, spec):
    tags = set()
    ps, instr = m.progset, m.program_instructions
    T = len(m.t)
    act = [is_active(m, ti) for ti in range(T)]
    if act[0]:
        tags.add("prog.active_at_index0")
        pre = m._verif_preflush.get("stock")
        if pre and any(ex["net"]["kinds"][c] in ("j", "r") and any(v != 0 for v in rows) for c, rows in enumerate(pre)):
            tags.add("prog.active_at_index0.junction_initialised")
            if len(m._verif_calls.get(0, [])) == 2 and m._verif_calls[0][0] != m._verif_calls[0][1]:
                tags.add("prog.index0.preflush_outcomes_differ")
    if any(act) and not all(act):
        tags.add("prog.starts_later" if not act[0] else "prog.stops")
    if any(act[i] and not act[i + 1] for i in range(T - 1)):
        tags.add("prog.stop_inside_run")
    if not any(act):
        tags.add("prog.never_active")
    if math.isfinite(float(instr.stop_year)):
        tags.add("instr.stop_year")
    for k in ("alloc", "capacity", "coverage"):
        if len(getattr(instr, k)):
            tags.add("overwrite." + k)
    for prog in ps.programs.values():
        tags.add("prog.oneoff" if prog.is_one_off else "prog.continuous")
        if prog.capacity_constraint.has_data:
            tags.add("prog.capacity_constraint")
        if len(prog.spend_data.t) > 1 or len(prog.unit_cost.t) > 1:
            tags.add("prog.timevarying_book")
        if len(prog.target_pops) > 1:
            tags.add("prog.multi_pops")
        if len(prog.target_comps) > 1:
            tags.add("prog.multi_comps")
    for name, tcs in ex["prog_targets"].items():
        if any(ex["net"]["kinds"][c] in ("j", "r") for c in tcs):
            tags.add("prog.junction_target")
        if any(ex["net"]["kinds"][c] == "t" for c in tcs):
            tags.add("prog.timed_target")
    dyn = set(m._exec_order["dynamic_pars"])
    for par, co in ex["covouts"]:
        if par.name not in dyn:
            tags.add("covout.not_in_loop")
            continue
        tags.add(f"covout.nprogs{min(len(co.progs), 3)}")
        tags.add("covout." + co.cov_interaction)
        if co.imp_interaction:
            tags.add("covout.explicit_interaction")
        u = {"n": "number", "f": "pertime", "o": "other"}[params_corr.units_code(par.units)]
        tags.add("target.units." + u)
        tags.add("target.format." + str(par.units))
        if par.pop_aggregation:
            tags.add("target.aggregation")
        elif par.fcn_str:
            tags.add("target.function." + ("dynamic" if par._is_dynamic else "precompute" if par._precompute else "postcompute"))
        else:
            tags.add("target.data")
        if par.links:
            tags.add("target.transition")
        else:
            tags.add("target.non_transition")
        if par.limits is not None:
            tags.add("target.limits")
            v = np.asarray(par.vals, dtype=float)
            if any(act[ti] and (v[ti] == par.limits[0] or v[ti] == par.limits[1]) for ti in range(T)):
                tags.add("target.clipped_program_value")
        # a function parameter that reads a targeted parameter
        for pop in m.pops:
            for p2 in pop.pars:
                if any(d is par for ds in p2.deps.values() for d in ds):
                    tags.add("target.has_dependent_function")
    return tags


def check_one(ctx, prop, spec, m, key):
    """closed-loop correspondence with programs on one processed model: 'ok' | 'unsupported' | 'ambiguous' | 'break' | 'violation'"""
    try:
        ex = extract_p(m)
    except Unsupported as e:
        ctx.count("closedprog.unsupported")
        ctx.count("closedprog.unsupported." + str(e).split()[0])
        return "unsupported"
    net = ex["net"]
    net["n_link"] = ex["n_link"]
    if grid_ambiguous(m) or closed_corr.window_ambiguous(m):
        ctx.ambiguous += 1
        ctx.count("closedprog.ambiguous.grid_vs_breakpoint")
        return "ambiguous"
    rep = core.drive([cpsim_req(ex["tokens"])], timeout=900)[0]
    tags = features_p(m, ex, spec) | {t for t in closed_corr.features_of(m, ex, spec) if t.startswith(("has.", "units.", "fn.", "agg.", "scen.", "deriv."))}
    for tg in tags:
        ctx.count(tg)
    nontriv = any(t.startswith("target.") for t in tags) and "prog.never_active" not in tags
    ctx.case(key, nontrivial=nontriv, sample={"case": key, "kinds": "".join(net["kinds"]), "n_pars": len(ex["pars"]), "npts": len(m.t), "programs": len(ex["prog_names"]), "covouts": len(ex["covouts"]),
                                              "instr": {"start": float(m.program_instructions.start_year), "stop": float(m.program_instructions.stop_year)}, "tags": sorted(t for t in tags if t.startswith(("prog.", "target.", "covout.", "overwrite.")))})
    ctx.hyp_checked += 1
    if rep.startswith("err"):
        wf = core.drive(["cpwf " + ex["tokens"]])[0]
        ctx.brk("correspondence", f"closed-loop spec with programs extracted from a built Model fails the model's well-formedness check ({rep}; {wf})", stage="closedprog-wf", case=key, spec=spec)
        return "break"
    ctx.hyp_held += 1
    # hypotheses of closedprog_sets_targets on every covout: visited by the loop, not output-only, not an aggregation
    dyn = set(m._exec_order["dynamic_pars"])
    for par, co in ex["covouts"]:
        ctx.hyp_checked += 1
        if par.name in dyn and not par.pop_aggregation and not (par.fcn_str and not par._is_dynamic and not par._precompute):
            ctx.hyp_held += 1
        else:
            ctx.count("closedprog.hyp.sets_targets.not_held")
    entries, stop = closed_corr.parse_reply(net, rep)
    mcovs = parse_covs(rep)
    amb = covout_ambiguous(m, ex, mcovs)
    if amb:
        ctx.ambiguous += 1
        ctx.count("closedprog.ambiguous." + amb)
        return "ambiguous"
    ctx.count("closedprog.compared_models")
    ctx.count("closedprog.compared_indices", len(entries))
    ctx.count("closedprog.compared_active_indices", sum(1 for ti in range(len(entries)) if is_active(m, ti)))
    if stop is not None:
        ctx.count("closedprog.model_undefined." + stop)
        ti = len(entries)
        if stop not in ("big",) and not closed_corr.impl_nonfinite_at(m, net, ti):
            if stop == "step":
                if junction_dust(m, ex, min(ti, len(m.t) - 1)):
                    ctx.ambiguous += 1
                    ctx.count("closedprog.ambiguous.junction_zero_proportions")
                    return "ambiguous"
                ctx.brk("correspondence", f"closed-loop model step undefined (0/0 at a junction) at index {ti} but the implementation is finite there", stage="closedprog-nan", case=key, spec=spec)
                return "break"
            ctx.count("closedprog.model_undefined_impl_finite")
    diffs = closed_corr.compare(m, net, entries, stop)
    ctx.traces += 1
    if not diffs:
        diffs = compare_all_pars(m, ex, entries)
        ctx.count("closedprog.compared_parameter_values", len(ex["pars"]) * len(entries))
    if not diffs:
        return "ok"
    d = diffs[0]
    ctx.disagreements_checked += 1
    ti = d["t"]
    amb = closed_corr.ambiguity(m, ex, entries, ti, focus=[d["par"]] if d["kind"] == "par" else None)
    if not amb and is_active(m, ti) and ti < len(entries) and eligible_dust(m, ex, ti, entries[ti][0], mcovs[ti] if ti < len(mcovs) else None):
        amb = "eligible_dust"
    if amb:
        ctx.ambiguous += 1
        ctx.count("closedprog.ambiguous." + amb)
        ctx.notes.append(f"ambiguous ({amb}) {key}: {d['what'][:160]}")
        return "ok"
    pdiff = closed_corr.par_layer_diff(m, ex, entries, ti) if d["kind"] == "flow" else []
    layer = "parameter values" if (pdiff or d["kind"] == "par") else ("initial flush" if (ti == 0 and d["kind"] == "stock") else "flows/update")
    what = f"closed loop with programs, {layer}: {d['what']}" + (f"; parameter {pdiff[0][0]} model {pdiff[0][1]!r} impl {pdiff[0][2]!r}" if pdiff else "")
    if ti < len(mcovs) and is_active(m, ti) and ti in m._verif_calls:
        used = m._verif_calls[ti][-1][0]
        what += "; coverages model " + str([None if c is None else round(float(c), 12) for c in mcovs[ti]]) + " impl " + str([used.get(n) for n in ex["prog_names"]])
    replay = {"spec": spec, "case": key, "how": "vlib.closedprog_corr.replay_case(case)"}
    n_before = len(ctx.violations)
    found = []
    try:
        found += prefix_oracle(spec, m)
    except Exception as e:  # the program-free model may be refused for its own reasons
        ctx.notes.append("prefix oracle: " + repr(e)[:200])
    found += program_oracles(m, ex)
    found += untargeted_oracle(m, ex)
    found += extension_oracles(m, ex)
    for okey, owhat in found:
        ctx.violation({"api": "Model.update_pars", **okey}, owhat, replay)
    ors, illposed = engine_corr.oracles(m, net)
    for (_p, okey, owhat) in [o for o in ors if o[0] in (prop, "C03") and not (illposed and o[1].get("oracle") == "finite")]:
        ctx.violation({"api": "Model.process", **okey}, owhat, replay)
    if len(ctx.violations) > n_before:
        return "violation"
    ctx.brk("correspondence", what, stage="closedprog-" + ("pars" if (pdiff or d["kind"] == "par") else "flows"), case=key, spec=spec)
    return "break"


def _worker(sub, n, prop=None, regimes=None):
    import logging
    import atomica
    atomica.logger.setLevel(logging.ERROR)
    _run(sub, prop, n, regimes)


def _run(ctx, prop, n_models, regimes):
    for i in range(n_models):
        regime = regimes[i % len(regimes)]
        sub_seed = ctx.rng.randrange(1 << 30)
        rr = _random.Random(sub_seed)
        try:
            spec, m = gen_model(rr, regime)
        except RuntimeError as e:
            ctx.notes.append(str(e)[:200])
            ctx.count("closedprog.gen_failed")
            continue
        key = {"closedprog": True, "sub_seed": sub_seed, "regime": regime}
        ctx.count("closedprog.regime." + regime)
        try:
            check_one(ctx, prop, spec, m, key)
        except core.DriverError as e:
            ctx.brk("correspondence", f"driver failed on a closed-loop request with programs: {str(e)[:200]}", stage="closedprog-driver", case=key, spec=spec)


def run_closedprog(ctx, prop, n_models, regimes=("calibrated", "boundary", "calibrated", "extreme"), workers=None):
    """Generate `n_models` small models WITH program sets and compare whole trajectories with `ClosedProg.simulate`."""
    if workers is None:
        workers = 12 if n_models >= 48 else 1
    if workers > 1:
        core.parallel(ctx, _worker, n_models, workers, prop=prop, regimes=regimes)
    else:
        _run(ctx, prop, n_models, regimes)


def replay_case(case, verbose=True):
    """Rebuild the model of a recorded case key ({'sub_seed', 'regime'}) and print the comparison and the oracles. -> 1 if it still fails"""
    rr = _random.Random(case["sub_seed"])
    spec, m = gen_model(rr, case["regime"])
    ex = extract_p(m)
    net = ex["net"]
    net["n_link"] = ex["n_link"]
    if grid_ambiguous(m):
        print("float grid and exact grid disagree at a breakpoint of the program layer: no claim")
        return 0
    rep = core.drive([cpsim_req(ex["tokens"])], timeout=900)[0]
    if rep.startswith("err"):
        print("driver:", rep, core.drive(["cpwf " + ex["tokens"]])[0])
        return 1
    entries, stop = closed_corr.parse_reply(net, rep)
    mcovs = parse_covs(rep)
    if covout_ambiguous(m, ex, mcovs):
        print("covout ordering / additive branch decided by rounding: no claim")
        return 0
    diffs = closed_corr.compare(m, net, entries, stop) or compare_all_pars(m, ex, entries)
    if diffs:
        ti = diffs[0]["t"]
        amb = closed_corr.ambiguity(m, ex, entries, ti, focus=[diffs[0]["par"]] if diffs[0]["kind"] == "par" else None)
        if amb or (is_active(m, ti) and eligible_dust(m, ex, ti, entries[ti][0], mcovs[ti] if ti < len(mcovs) else None)):
            print("first disagreement is within rounding of a discontinuity of the rule (ambiguous):", amb, diffs[0]["what"])
            return 0
    found = []
    if diffs:
        try:
            found += prefix_oracle(spec, m)
        except Exception as e:
            print("prefix oracle not evaluated:", repr(e)[:200])
        found += program_oracles(m, ex) + untargeted_oracle(m, ex) + extension_oracles(m, ex)
    if verbose:
        print(f"indices computed by the model: {len(entries)} of {len(m.t)}; stop={stop}; start_year={float(m.program_instructions.start_year)!r} stop_year={float(m.program_instructions.stop_year)!r}")
        print("first disagreement:", diffs[0]["what"] if diffs else None)
        for k, w in found[:8]:
            print("oracle violated:", k, w[:300])
    return 1 if diffs else 0


# ----------------------------------------------------------------------------------------------
# self-checks of the driver paths
# ----------------------------------------------------------------------------------------------
def closedprog_selfcheck(ctx, n=2):
    """(a) memoised `cpsim` vs the reference path `cpsimref` (= `ClosedProg.simulate` verbatim) on tiny 2-point models;
       (b) a program set that is never active: `cpsim` must reproduce `csim` of the program-free specification entry by entry
           (closedprog_is_closed_before_start, exercised through the driver)."""
    done_ref = done_inactive = 0
    for i in range(60):
        if done_ref >= n and done_inactive >= n:
            break
        rr = _random.Random(ctx.seed * 7919 + i)
        feats = {"n_norm": 2, "npops": 1, "nsteps": 2, "junctions": rr.choice([0, 1]), "timed": 0, "sinks": 1, "functions": True, "aggregation": False, "transfers": False, "source": False, "dt": 0.5}
        try:
            spec = genfw.random_spec(rr, "calibrated", feats)
            spec = closed_corr.enrich(spec, rr)
            spec["progspec"] = gen_progspec(rr, spec, force_t0=(i % 2 == 0))
            if done_ref >= n:
                spec["progspec"]["instr"]["start"] = float(spec["settings"][1] + 5.0)
                spec["progspec"]["instr"]["stop"] = None
            m = build_and_run(spec)
            ex = extract_p(m)
        except Exception:
            continue
        net = ex["net"]
        net["n_link"] = ex["n_link"]
        if len(net["links"]) > 8 or grid_ambiguous(m):
            continue
        a = core.drive([cpsim_req(ex["tokens"])])[0]
        if not a.startswith("ok"):
            continue
        strip = lambda rep, k: " | ".join(" ; ".join(sec.split(" ; ")[:k]) for sec in rep.split(" | "))
        if done_ref < n:
            short = _with_npts(ex, net, 2)
            a2 = core.drive([cpsim_req(short)])[0]
            b2 = core.drive(["cpsimref " + short], timeout=900)[0]
            if strip(a2, 2) != b2:
                ctx.brk("correspondence", "driver self-check: memoised cpsim differs from ClosedProg.simulate (cpsimref)", stage="closedprog-driver")
            done_ref += 1
        elif done_inactive < n:
            m.program_instructions, saved = None, m.program_instructions
            try:
                base = closed_corr.extract(m)["tokens"]
            finally:
                m.program_instructions = saved
            b = core.drive([closed_corr.csim_req(base)])[0]
            if strip(a, 3) != b:
                ctx.brk("correspondence", "driver self-check: cpsim with programs that are never active differs from csim of the program-free specification", stage="closedprog-driver")
            done_inactive += 1
    ctx.extra["closedprog_selfcheck_ref"] = done_ref
    ctx.extra["closedprog_selfcheck_inactive"] = done_inactive


def _with_npts(ex, net, npts):
    nt = genfw.net_tokens(net)
    rest = ex["tokens"][len(nt) + 1:].split(" ")
    rest[2] = str(npts)
    return nt + " " + " ".join(rest)
