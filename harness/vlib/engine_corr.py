"""
vlib.engine_corr -- mode B (step-level trace refinement) between atomica's Model and AtomicaModel.Engine,
plus the direct oracles of C01/C02/C03/C04/C05 evaluated on the implementation's own arrays.

For every time index t of a processed Model the implementation's own state at t (exact rationals of its floats) and the
parameter values it used are sent to the Lean driver, which computes ONE model step exactly; the reply is compared with the
implementation's flows at t and stocks at t+1.
"""
from __future__ import annotations

import math
from fractions import Fraction

import numpy as np

from . import core, genfw
from .core import q, unq

STAGE_PROPS = {
    "wf": {"C01", "C02", "C03", "C04", "C05"},
    "nan": {"C01", "C02", "C04"},
    "resolve": {"C01", "C02", "C03"},
    "resolve-timed": {"C01", "C02", "C03", "C05"},
    "balance": {"C01", "C02", "C04"},
    "balance-timed": {"C01", "C02", "C04", "C05"},   # a junction that belongs to a duration group (row-wise balancing keeps the elapsed time of a cohort)
    "update": {"C01", "C02"},
    "update-timed": {"C01", "C02", "C05"},
    "flush": {"C04", "C01"},
}

RTOL = 1e-11   # relative to the compared value itself
ATOL = 1e-14   # x magnitude of the operands of the subtractions the value comes from (floating-point dust)


def _fr(x):
    return Fraction(*float(x).as_integer_ratio())


def step_requests(m, net, t_indices):
    nt = genfw.net_tokens(net)
    dt = q(m.dt)
    reqs = []
    for ti in t_indices:
        stock = genfw.snapshot_stock(m, ti)
        pv = genfw.pv_at(net, ti)
        if any(not math.isfinite(v) for v in pv) or any(not math.isfinite(v) for rows in stock for v in rows):
            reqs.append(None)
            continue
        reqs.append(f"estep {nt} {dt} " + " ".join(q(v) for v in pv) + " " + " ".join(q(v) for rows in stock for v in rows))
    return reqs


def parse_step_reply(net, rep):
    """-> (flows per link per lrow, stock per comp per row) of Fractions, or 'nan' / 'err ...'"""
    if not rep.startswith("ok"):
        return rep
    body = rep[3:]
    fpart, spart = body.split("|")
    ft = fpart.split()
    st = spart.split()
    flows, k = [], 0
    for L in net["lrows"]:
        flows.append([unq(x) for x in ft[k:k + L]])
        k += L
    stock, k = [], 0
    for n in net["nrows"]:
        stock.append([unq(x) for x in st[k:k + n]])
        k += n
    return flows, stock


def _link_scales(net, stock_now):
    """magnitude of the quantities a link value is computed from: the source stock; junction out-links inherit their in-links'"""
    kinds = net["kinds"]
    nL = len(net["links"])
    lscale = [0.0] * nL
    for l in range(nL):
        if kinds[net["src"][l]] not in "jr":
            lscale[l] = max(1.0, sum(abs(v) for v in stock_now[net["src"][l]]))
    for j in net["jorder"]:
        sj = sum(lscale[l2] for l2 in range(nL) if net["dst"][l2] == j)
        for l in range(nL):
            if net["src"][l] == j:
                lscale[l] = max(1.0, sj)
    return lscale


def _zero_sum_junctions(net, ti):
    """plain junctions whose proportions sum to exactly 0 at index ti: there the branch `inflow == 0` (fix fc608db) decides
    between "all outflows 0" and NaN; an inflow within rounding of 0 may send code and exact model down different branches"""
    out = []
    nL = len(net["links"])
    for c, k in enumerate(net["kinds"]):
        if k == "j":
            outs = [l for l in range(nL) if net["src"][l] == c]
            if outs and all(net["links"][l].parameter is not None for l in outs) and sum(float(net["links"][l].parameter.vals[ti]) for l in outs) == 0:
                out.append(c)
    return out


def compare_trace(ctx, spec, m, net, label):
    """Mode B over every step of one processed model. Returns list of break dicts (stage, t, what)."""
    T = len(m.t)
    reqs = step_requests(m, net, range(T))
    idx = [i for i, rq in enumerate(reqs) if rq is not None]
    reps = core.drive([reqs[i] for i in idx])
    breaks = []
    rep_at = dict(zip(idx, reps))
    kinds = net["kinds"]
    for ti in range(T):
        if ti not in rep_at:
            ctx.count("step.skipped_nonfinite_input")
            continue
        parsed = parse_step_reply(net, rep_at[ti])
        impl_fl = genfw.snapshot_flows(m, net, ti)
        if isinstance(parsed, str):
            if parsed.startswith("err wf"):
                breaks.append({"stage": "wf", "t": ti, "what": "extracted net fails the model's well-formedness check (wfCheck)"})
                break
            if parsed == "nan":
                ctx.count("step.model_undefined")
                # model undefined (sum of proportions 0 at a plain junction): implementation must show NaN/inf on a junction link
                bad = any(not all(math.isfinite(v) for v in impl_fl[l]) for l in range(len(impl_fl)) if kinds[net["src"][l]] in "jr")
                zeroj = [] if bad else _zero_sum_junctions(net, ti)
                if zeroj:
                    # implementation saw an inflow of exactly 0 (underflow) and sent 0; is the exact inflow within rounding of 0?
                    # ask the model with the proportions of those junctions set to 1 (they drive nothing else)
                    stock_now = genfw.snapshot_stock(m, ti)
                    lscale = _link_scales(net, stock_now)
                    pv = genfw.pv_at(net, ti)
                    for z in zeroj:
                        for l in range(len(impl_fl)):
                            if net["src"][l] == z:
                                pv[net["par"][l]] = 1.0
                    rq = f"estep {genfw.net_tokens(net)} {q(m.dt)} " + " ".join(q(v) for v in pv) + " " + " ".join(q(v) for rows in stock_now for v in rows)
                    p2 = parse_step_reply(net, core.drive([rq])[0])
                    if not isinstance(p2, str) and all(
                            abs(float(sum((sum(p2[0][l], Fraction(0)) for l in range(len(impl_fl)) if net["dst"][l] == z), Fraction(0))))
                            <= ATOL * max(1.0, sum(lscale[l] for l in range(len(impl_fl)) if net["dst"][l] == z)) for z in zeroj):
                        ctx.ambiguous += 1
                        ctx.count("step.ambiguous_zero_inflow")
                        continue
                if not bad:
                    breaks.append({"stage": "nan", "t": ti, "what": "model step undefined (division by zero at a junction) but implementation flows are all finite"})
                continue
            breaks.append({"stage": "wf", "t": ti, "what": f"driver replied {parsed[:80]}"})
            break
        mfl, mst = parsed
        ctx.count("step.compared")
        stock_now = genfw.snapshot_stock(m, ti)
        # ---- flows
        first = None
        # Scales.  A value is compared with rtol 1e-11 relative to ITS OWN magnitude plus an absolute allowance of 1e-14 x the
        # magnitude of the quantities it was computed from by subtraction (x - x*f, in - sum(out)): that is where floating
        # point leaves dust (a few ulp of the source stock), and dust travels downstream through junctions.
        lscale = [0.0] * len(mfl)
        for l in range(len(mfl)):
            if kinds[net["src"][l]] not in "jr":
                lscale[l] = max(1.0, sum(abs(v) for v in stock_now[net["src"][l]]))
        for j in net["jorder"]:
            sj = sum(lscale[l2] for l2 in range(len(mfl)) if net["dst"][l2] == j)
            for l in range(len(mfl)):
                if net["src"][l] == j:
                    lscale[l] = max(1.0, sj)
        # the reverse ambiguity: exact inflow 0 (model: outflows 0) but rounding dust flows in in the implementation (NaN out-links)
        zamb = set()
        for z in _zero_sum_junctions(net, ti):
            outs = [l for l in range(len(mfl)) if net["src"][l] == z]
            inn = sum(sum(impl_fl[l]) for l in range(len(mfl)) if net["dst"][l] == z)
            if (math.isfinite(inn) and inn != 0 and abs(inn) <= ATOL * max(1.0, sum(lscale[l] for l in range(len(mfl)) if net["dst"][l] == z))
                    and all(not math.isfinite(v) for l in outs for v in impl_fl[l]) and all(v == 0 for l in outs for v in mfl[l])):
                zamb.add(z)
        if zamb:
            ctx.ambiguous += 1
            ctx.count("step.ambiguous_zero_inflow")
        for l, (mrow, irow) in enumerate(zip(mfl, impl_fl)):
            if net["src"][l] in zamb:
                continue
            if net["tlink"][l]:
                pairs = list(zip(mrow, irow)) if len(mrow) == len(irow) else None
                if pairs is None:
                    first = first or (l, f"link {l} rows: model {len(mrow)} impl {len(irow)}")
                    continue
            else:
                pairs = [(sum(mrow, Fraction(0)), irow[0])]
            for r, (mv, iv) in enumerate(pairs):
                if not core.close(mv, iv, scale=0.0, rtol=RTOL, atol=ATOL * lscale[l]):
                    if first is None:
                        first = (l, f"flow of link {l} ({net['links'][l].id}) row {r} at t index {ti}: model {float(mv)!r} impl {iv!r}")
        if first is not None:
            l = first[0]
            sk = kinds[net["src"][l]]
            stage = ("balance-timed" if (len(impl_fl[l]) > 1 or len(mfl[l]) > 1) else "balance") if sk in "jr" else ("resolve-timed" if (sk == "t" or kinds[net["dst"][l]] == "t") else "resolve")
            # junction flows may differ only because upstream flows differ: attribute to the earliest stage that differs
            for l2, (mrow, irow) in enumerate(zip(mfl, impl_fl)):
                if kinds[net["src"][l2]] not in "jr":
                    s2 = net["src"][l2]
                    mv = sum(mrow, Fraction(0))
                    iv = sum(irow)
                    if not core.close(mv, iv, scale=0.0, rtol=RTOL, atol=ATOL * lscale[l2] * max(1, len(irow))):
                        stage = "resolve-timed" if (kinds[s2] == "t" or kinds[net["dst"][l2]] == "t") else "resolve"
                        break
            breaks.append({"stage": stage, "t": ti, "what": first[1]})
            continue
        # ---- next stock (skipped when the implementation's NaN branch was accepted as ambiguous: the NaN reaches the stocks)
        if ti + 1 < T and not zamb:
            nxt = genfw.snapshot_stock(m, ti + 1)
            for c, (mrow, irow) in enumerate(zip(mst, nxt)):
                cscale = max(1.0, sum(abs(v) for v in stock_now[c])) + sum(lscale[l2] for l2 in range(len(mfl)) if net["dst"][l2] == c)
                for r, (mv, iv) in enumerate(zip(mrow, irow)):
                    if not core.close(mv, iv, scale=0.0, rtol=RTOL, atol=ATOL * cscale):
                        breaks.append({"stage": "update-timed" if kinds[c] == "t" else "update", "t": ti,
                                       "what": f"stock of comp {c} ({net['comps'][c].id}) row {r} at t index {ti + 1}: model {float(mv)!r} impl {iv!r}"})
                        break
                else:
                    continue
                break
    ctx.traces += 1
    return breaks


def compare_flush(ctx, m, net):
    """initial flush: pre-flush stock captured by genfw.run(capture_preflush=True)"""
    pre = getattr(m, "_verif_preflush", None)
    if not pre:
        return []
    stock = pre["stock"]
    pv = [pre["pv"].get(p.id, 0.0) for p in net["pars"]]
    # the proportions the flush is about to use must be defined (the start-up sequence evaluates parameters BEFORE flushing):
    # a junction holding people whose out-link proportion is NaN cannot be redistributed by the rule
    for c, k in enumerate(net["kinds"]):
        if k in "jr" and stock[c][0] > 0:
            for l in range(len(net["links"])):
                if net["src"][l] == c and net["par"][l] >= 0 and not math.isfinite(pv[net["par"][l]]):
                    post = genfw.snapshot_stock(m, 0)
                    tot_pre = sum(v for rows in stock for v in rows)
                    tot_post = sum(v for rows in post for v in rows)
                    viol = ("C04", {"oracle": "flush-undefined-proportion"},
                            f"initial flush of junction {net['comps'][c].id} holding {stock[c][0]!r} people used an undefined (NaN) proportion for link {net['links'][l].id}; total before {tot_pre!r}, after {tot_post!r}")
                    return [{"stage": "flush", "t": 0, "what": viol[2], "violation": viol}]
    if any(not math.isfinite(v) for v in pv) or any(not math.isfinite(v) for rows in stock for v in rows):
        return []
    if not any(stock[c][0] > 0 for c in range(len(stock)) if net["kinds"][c] in "jr"):
        ctx.count("flush.nothing_to_flush")
    else:
        ctx.count("flush.nonempty_junction")
    rq = f"eflush {genfw.net_tokens(net)} " + " ".join(q(v) for v in pv) + " " + " ".join(q(v) for rows in stock for v in rows)
    rep = core.drive([rq])[0]
    post = genfw.snapshot_stock(m, 0)
    if rep == "nan":
        bad = any(not math.isfinite(v) for rows in post for v in rows)
        return [] if bad else [{"stage": "flush", "t": 0, "what": "model flush undefined (0/0) but implementation stocks finite"}]
    if not rep.startswith("ok"):
        return [{"stage": "wf", "t": 0, "what": f"driver replied {rep[:60]} to eflush"}]
    st = rep[3:].split()
    k = 0
    for c, n in enumerate(net["nrows"]):
        scale = max(1.0, sum(abs(v) for rows in stock for v in rows))
        for r in range(n):
            if not core.close(unq(st[k]), post[c][r], scale=scale, rtol=RTOL):
                return [{"stage": "flush", "t": 0, "what": f"after initial flush comp {c} ({net['comps'][c].id}) row {r}: model {float(unq(st[k]))!r} impl {post[c][r]!r}"}]
            k += 1
    return []


# ----------------------------------------------------------------------------------------------
# direct oracles on the implementation (the properties' own predicates)
# ----------------------------------------------------------------------------------------------
def oracles(m, net):
    """Returns list of (property, key, what). Works on the implementation's arrays only."""
    from atomica import model as M

    out = []
    comps, links = net["comps"], net["links"]
    kinds = net["kinds"]
    T = len(m.t)
    tot = np.array([np.asarray(c.vals, dtype=float) for c in comps])  # nC x T
    rec = np.array([np.asarray(l.vals, dtype=float) for l in links]) if links else np.zeros((0, T))
    src = np.array(net["src"], dtype=int)
    dst = np.array(net["dst"], dtype=int)
    nC = len(comps)
    outflow = np.zeros((nC, T))
    inflow = np.zeros((nC, T))
    for l in range(len(links)):
        outflow[src[l]] += rec[l]
        inflow[dst[l]] += rec[l]
    finite = np.isfinite(tot).all() and np.isfinite(rec).all()
    # the C01/C02 domain restriction: a plain junction that receives people must have sum(p) > 0
    illposed = False
    for c in range(nC):
        if kinds[c] == "j":
            ps = sum(np.asarray(links[l].parameter.vals, dtype=float) for l in range(len(links)) if src[l] == c and links[l].parameter is not None)
            if np.any((np.asarray(ps) <= 0) & (inflow[c] > 0)):
                illposed = True
    if not finite:
        if not illposed:
            where = [str(comps[c].id) for c in range(nC) if not np.isfinite(tot[c]).all()][:3] + [str(links[l].id) for l in range(len(links)) if not np.isfinite(rec[l]).all()][:3]
            out.append(("C02", {"oracle": "finite"}, f"NaN/inf in stocks or flows although inputs are finite and no plain junction with sum(p)<=0 receives people: {where}"))
        return out, illposed
    # ---- C01 balance
    for c in range(nC):
        if kinds[c] in "sjr":
            continue
        lhs = tot[c, 1:]
        rhs = tot[c, :-1] - outflow[c, :-1] + inflow[c, :-1]
        tolv = 1e-9 * np.maximum(1.0, np.abs(tot[c, :-1]))
        bad = np.abs(lhs - rhs) > tolv
        if bad.any():
            t = int(np.argmax(bad))
            out.append(("C01", {"oracle": "balance", "kind": kinds[c]}, f"compartment {comps[c].id} at index {t + 1}: {lhs[t]!r} != {tot[c, t]!r} - out {outflow[c, t]!r} + in {inflow[c, t]!r} (diff {lhs[t] - rhs[t]:.3e})"))
            break
    for c in range(nC):
        if kinds[c] in "jr":
            tolv = 1e-9 * np.maximum(1.0, np.abs(inflow[c]))
            bad = np.abs(inflow[c] - outflow[c]) > tolv
            if bad.any():
                t = int(np.argmax(bad))
                out.append(("C01", {"oracle": "junction-passthrough"}, f"junction {comps[c].id} at index {t}: in {inflow[c, t]!r} != out {outflow[c, t]!r}"))
                out.append(("C04", {"oracle": "junction-passthrough"}, f"junction {comps[c].id} at index {t}: in {inflow[c, t]!r} != out {outflow[c, t]!r}"))
                break
    nonsrc = [c for c in range(nC) if kinds[c] != "s"]
    total = tot[nonsrc].sum(axis=0)
    srcout = sum((rec[l] for l in range(len(links)) if kinds[src[l]] == "s"), np.zeros(T))
    tolv = 1e-9 * np.maximum(1.0, np.abs(total[:-1])) * max(1, nC)
    bad = np.abs(total[1:] - total[:-1] - srcout[:-1]) > tolv
    if bad.any():
        t = int(np.argmax(bad))
        out.append(("C01", {"oracle": "total"}, f"total people at index {t + 1}: {total[t + 1]!r} != {total[t]!r} + source outflow {srcout[t]!r}"))
    # ---- C02
    if (tot < 0).any() or (rec < 0).any():
        w = [str(comps[c].id) for c in range(nC) if (tot[c] < 0).any()][:2] + [str(links[l].id) for l in range(len(links)) if (rec[l] < 0).any()][:2]
        out.append(("C02", {"oracle": "nonneg"}, f"negative stock or flow: {w}"))
    for l in range(len(links)):
        if isinstance(links[l], M.TimedLink) and (np.asarray(links[l]._vals) < 0).any():
            out.append(("C02", {"oracle": "nonneg-row"}, f"negative per-row flow on {links[l].id}"))
            break
    for c in range(nC):
        if kinds[c] in "sjr":
            continue
        bad = outflow[c] > tot[c] * (1 + 1e-12) + 1e-12
        if bad.any():
            t = int(np.argmax(bad))
            out.append(("C02", {"oracle": "overdraw", "kind": kinds[c]}, f"compartment {comps[c].id} at index {t}: outflow {outflow[c, t]!r} > stock {tot[c, t]!r}"))
            break
    # negative transition parameter => zero flow; documented conversion (C03) for ordinary compartments
    dtv = m.dt
    for c in range(nC):
        if kinds[c] != "n":
            continue
        outs = [l for l in range(len(links)) if src[l] == c]
        if not outs:
            continue
        fracs = []
        for l in outs:
            p = links[l].parameter
            v = np.asarray(p.vals, dtype=float)
            u = net["units"][net["par"][l]]
            ts = p.timescale
            with np.errstate(divide="ignore", invalid="ignore"):
                if u == "f":
                    fr = v * dtv / ts
                elif u == "d":
                    fr = dtv / (v * ts)
                elif u == "n":
                    popsize = sum(tot[src[l2]] for l2 in range(len(links)) if links[l2].parameter is p)
                    fr = np.where(popsize > 0, v * dtv / ts / np.where(popsize > 0, popsize, 1), 0.0)
                else:
                    fr = np.zeros(T)
            fr = np.where(v > 0, fr, 0.0)
            fracs.append(fr)
            if ((v < 0) & (rec[l] != 0)).any():
                out.append(("C02", {"oracle": "negative-parameter-flow"}, f"link {links[l].id}: nonzero flow although parameter value is negative"))
        fsum = sum(fracs)
        for l, fr in zip(outs, fracs):
            expect = tot[c] * np.where(fsum > 1, fr / np.where(fsum > 1, fsum, 1), fr)
            tolv = 1e-8 * np.maximum(1.0, np.abs(tot[c]))
            bad = np.abs(rec[l] - expect) > tolv
            if bad.any():
                t = int(np.argmax(bad))
                out.append(("C03", {"oracle": "conversion", "units": net["units"][net["par"][l]]}, f"link {links[l].id} at index {t}: flow {rec[l, t]!r} but documented conversion gives {expect[t]!r} (stock {tot[c, t]!r}, fraction {fr[t]!r}, sum of fractions {fsum[t]!r})"))
                break
    for l in range(len(links)):
        if kinds[src[l]] == "s" and links[l].parameter is not None:
            p = links[l].parameter
            v = np.asarray(p.vals, dtype=float)
            expect = np.where(v > 0, v * dtv / p.timescale, 0.0)
            if (np.abs(rec[l] - expect) > 1e-8 * np.maximum(1, np.abs(expect))).any():
                out.append(("C03", {"oracle": "source-number"}, f"source link {links[l].id}: flow differs from N*dt/T"))
    # ---- C04 junction emptiness and split
    for c in range(nC):
        if kinds[c] in "jr":
            if (tot[c] != 0).any():
                out.append(("C04", {"oracle": "junction-empty"}, f"junction {comps[c].id} holds people: max {tot[c].max()!r}"))
            outs = [l for l in range(len(links)) if src[l] == c]
            ps = [np.asarray(links[l].parameter.vals, dtype=float) if links[l].parameter is not None else np.zeros(T) for l in outs]
            psum = sum(ps)
            for l, pv_ in zip(outs, ps):
                if kinds[c] == "j":
                    with np.errstate(divide="ignore", invalid="ignore"):
                        expect = inflow[c] * pv_ / psum
                else:
                    norm = np.where(psum > 1, psum, 1.0)
                    if links[l].parameter is None:
                        expect = np.where(psum < 1, inflow[c] * (1 - psum), 0.0)
                    else:
                        expect = inflow[c] * pv_ / norm
                tolv = 1e-9 * np.maximum(1.0, np.abs(inflow[c]))
                bad = np.abs(rec[l] - expect) > tolv
                if bad.any():
                    t = int(np.argmax(bad))
                    out.append(("C04", {"oracle": "junction-split", "residual": kinds[c] == "r"}, f"junction link {links[l].id} at index {t}: flow {rec[l, t]!r}, expected {expect[t]!r} (inflow {inflow[c, t]!r}, sum p {psum[t]!r})"))
                    break
    # ---- C05 occupancy bound for timed compartments: total(t) <= arrivals of preceding n steps + unexpired share of initial occupants
    for c in range(nC):
        if kinds[c] == "t":
            n = net["nrows"][c]
            init = tot[c, 0]
            for t in range(T):
                arr = inflow[c, max(0, t - n):t].sum()
                bound = arr + init * max(0, n - t) / n
                if tot[c, t] > bound * (1 + 1e-9) + 1e-9:
                    out.append(("C05", {"oracle": "occupancy"}, f"timed compartment {comps[c].id} (n={n}) at index {t}: occupancy {tot[c, t]!r} exceeds arrivals of preceding {n} steps + unexpired initial share = {bound!r}"))
                    break
            # row structure: nobody beyond the last row, rows non-negative
            if (np.asarray(comps[c]._vals) < 0).any():
                out.append(("C02", {"oracle": "nonneg-row"}, f"negative row in timed compartment {comps[c].id}"))
    return out, illposed


def nontrivial_features(m, net):
    """Feature tags of a run (for branch coverage and the non-trivial rule)."""
    tags = set()
    kinds = net["kinds"]
    T = len(m.t)
    for k, name in (("t", "timed"), ("j", "junction"), ("r", "resjunction"), ("s", "source"), ("k", "sink")):
        if k in kinds:
            tags.add("has." + name)
    if any(net["tlink"]):
        tags.add("has.timedlink")
    if any(n > 1 for n in net["nrows"]):
        tags.add("has.multirow")
    if len(m.pops) > 1:
        tags.add("has.multipop")
    if any(l.source.pop is not l.dest.pop for l in net["links"]):
        tags.add("has.transfer")
    # rescale active?
    dtv = m.dt
    for c, comp in enumerate(net["comps"]):
        if kinds[c] != "n":
            continue
        outs = [l for l in range(len(net["links"])) if net["src"][l] == c]
        s = np.zeros(T)
        for l in outs:
            p = net["links"][l].parameter
            if p is None:
                continue
            v = np.asarray(p.vals, dtype=float)
            u = net["units"][net["par"][l]]
            with np.errstate(all="ignore"):
                if u == "f":
                    s += np.where(v > 0, v * dtv / p.timescale, 0)
                elif u == "d":
                    s += np.where(v > 0, dtv / (v * p.timescale), 0)
        if (s > 1).any():
            tags.add("rescale.active")
    for p in net["pars"]:
        v = np.asarray(p.vals, dtype=float)
        if (v < 0).any():
            tags.add("param.negative")
        if (v == 0).any():
            tags.add("param.zero")
        if len(set(v.tolist())) > 1:
            tags.add("param.timevarying")
    for c, comp in enumerate(net["comps"]):
        if kinds[c] in "nt" and (np.asarray(comp.vals) == 0).any():
            tags.add("stock.zero")
    return tags


def run_stream(ctx, prop, n_models, regimes=("calibrated", "extreme", "boundary"), features=None, focus=None, workers=None):
    """
    Parallel front end of `_run_stream` (forked workers with independent seeded sub-streams when there is enough work)."""
    if workers is None:
        workers = 12 if n_models >= 200 else 1
    if workers > 1:
        core.parallel(ctx, _stream_worker, n_models, workers, prop=prop, regimes=regimes, features=features, focus=focus)
    else:
        _run_stream(ctx, prop, n_models, regimes, features, focus)


def _stream_worker(sub, n, prop=None, regimes=None, features=None, focus=None):
    import logging
    import atomica
    atomica.logger.setLevel(logging.ERROR)
    _run_stream(sub, prop, n, regimes, features, focus)


def _run_stream(ctx, prop, n_models, regimes=("calibrated", "extreme", "boundary"), features=None, focus=None):
    """
    Generate models, run mode B + oracles; record into ctx what concerns `prop`.
    `focus`: optional callable(r) -> features dict, to weight the generator toward what the property is about.
    """
    rej_total = 0
    for i in range(n_models):
        r = ctx.rng
        regime = regimes[i % len(regimes)]
        feats = dict(features or {})
        if focus:
            feats.update(focus(r))
        sub_seed = r.randrange(1 << 30)
        import random as _random

        rr = _random.Random(sub_seed)
        try:
            spec, m, rej = genfw.random_model(rr, regime, feats, capture_preflush=True)
        except RuntimeError as e:
            ctx.notes.append(str(e)[:200])
            ctx.count("gen.failed")
            continue
        rej_total += rej
        net = genfw.extract_net(m)
        if sum(net["nrows"]) * max(1, len(net["links"])) * len(m.t) > 400000:
            # keyring with thousands of rows (duration >> dt): exact replay of every step would take minutes; counted, not compared
            ctx.count("gen.skipped_too_large")
            continue
        tags = nontrivial_features(m, net)
        for tg in tags:
            ctx.count(tg)
        ctx.count("regime." + regime)
        key = {"sub_seed": sub_seed, "regime": regime, "features": feats}
        ctx.case(key, nontrivial=bool(tags & {"rescale.active", "has.timed", "has.junction", "has.resjunction", "has.transfer", "param.negative", "stock.zero", "has.source"}),
                 sample={"sub_seed": sub_seed, "regime": regime, "kinds": "".join(net["kinds"]), "nrows": net["nrows"], "n_links": len(net["links"]), "settings": spec["settings"], "tags": sorted(tags)})
        # hypotheses: WF on the extracted net
        ctx.hyp_checked += 1
        wf = core.drive([f"ewf {genfw.net_tokens(net)}"])[0]
        if wf == "true":
            ctx.hyp_held += 1
        else:
            ctx.brk("correspondence", f"extracted net fails wfCheck (the implementation built a net the theorems do not cover): {wf}", stage="wf", case=key)
            continue
        if prop in ("C03", "C06"):
            try:
                from . import agg_corr
                agg_corr.check(ctx, [prop], spec, m, m._verif_parset, key)
            except Exception as e:  # the oracle itself must never abort the run
                ctx.notes.append("agg_corr: " + repr(e)[:200])
        brs = compare_trace(ctx, spec, m, net, key) + compare_flush(ctx, m, net)
        ors, illposed = oracles(m, net)
        if illposed:
            ctx.count("domain.illposed_junction")
        mine = [b for b in brs if prop in STAGE_PROPS.get(b["stage"], set())]
        ors = ors + [b["violation"] for b in brs if b.get("violation")]
        my_or = [o for o in ors if o[0] == prop]
        for (p_, okey, what) in my_or:
            if illposed and okey.get("oracle") in ("finite",):
                continue
            ctx.violation({"api": "Model.process", **okey}, what, {"spec": spec, "case": key, "how": "vlib.genfw.run(spec) then vlib.engine_corr.oracles"})
        for b in mine:
            ctx.disagreements_checked += 1
            ctx.brk("correspondence", f"mode B {b['stage']}: {b['what']}", stage=b["stage"], case=key, spec=spec)
    ctx.extra["generator_rejections"] = ctx.extra.get("generator_rejections", 0) + rej_total


def selfcheck_ref(ctx, n=3):
    """Cross-check the memoised driver path (estep) against the reference path that calls `Engine.step` verbatim."""
    import random as _random

    done = 0
    for i in range(20):
        if done >= n:
            break
        rr = _random.Random(ctx.seed * 7919 + i)
        try:
            spec, m, _ = genfw.random_model(rr, "calibrated", {"n_norm": 2, "junctions": 1, "timed": 1, "npops": 1, "sinks": 1, "nsteps": 3})
        except RuntimeError:
            continue
        net = genfw.extract_net(m)
        if len(net["links"]) > 12:
            continue
        reqs = [x for x in step_requests(m, net, range(2)) if x]
        a = core.drive(reqs)
        b = core.drive([x.replace("estep", "estepref", 1) for x in reqs], timeout=600)
        if a != b:
            ctx.brk("correspondence", "driver self-check: memoised estep differs from Engine.step (estepref)", stage="wf")
        done += 1
    ctx.extra["driver_selfcheck_cases"] = done


def replay_spec(ctx, prop, data, extra=None):
    """Generic replay of a stream case: re-run the recorded spec on the implementation, evaluate the oracles and mode B for `prop`; 1 if it still fails."""
    rp = data.get("replay") or {}
    if "spec" not in rp:
        br = (data.get("broken") or [{}])[0]
        rp = {"spec": br.get("spec"), "case": br.get("case")}
    if not rp.get("spec"):
        print("nothing to replay in this file")
        return 0
    try:
        m = genfw.run(rp["spec"], capture_preflush=True)
    except Exception as e:
        print(f"the implementation refuses / fails on the recorded model: {type(e).__name__}: {str(e)[:200]}")
        return 1 if core.impl_raised(ctx, e) else 2
    net = genfw.extract_net(m)
    ors, illposed = oracles(m, net)
    if extra is not None:
        ors = ors + list(extra(m, net))
    brs = compare_trace(ctx, rp["spec"], m, net, rp.get("case")) + compare_flush(ctx, m, net)
    n_before = len(ctx.violations)
    try:
        from . import agg_corr
        agg_corr.check(ctx, [prop], rp["spec"], m, getattr(m, "_verif_parset", None), rp.get("case"))
    except Exception:
        pass
    bad = len(ctx.violations) - n_before
    for v in ctx.violations[n_before:]:
        print("ORACLE", v["key"], v["what"][:300])
    for (p_, k, what) in ors:
        if p_ == prop:
            print("ORACLE", k, what)
            bad += 1
    for b in brs:
        if prop in STAGE_PROPS.get(b["stage"], set()):
            print("MODE-B", b["stage"], b["what"])
            bad += 1
    print(f"replay: kinds={''.join(net['kinds'])} nrows={net['nrows']} links={len(net['links'])} steps={len(m.t)} -> {'FAILS' if bad else 'passes'}")
    return 1 if bad else 0
