"""
vlib.closed_corr -- whole-simulation correspondence between atomica's Model and the closed-loop Lean model
`Atomica.Closed.simulate` (lean/AtomicaModel/Closed.lean).

For a generated model the REAL `Model` is built and processed (`genfw.run(spec, capture_preflush=True)`); the closed-loop
specification (net, characteristics, every parameter of every population with its databook series / scale factor / limits /
function tree with resolved dependencies / aggregation terms, execution order, grid, pre-flush stocks) is extracted from the
built Model + ParameterSet as exact rationals and sent to the driver (`csim`).  The reply holds every stock (row by row), every
link flow and every parameter value at every index; all stocks and flows are compared with the implementation's arrays to
rtol 1e-8 (the property's tolerance) plus a dust allowance of 1e-11 x (people in the model) for values that are differences of
large numbers.  No parameter value and no state of the implementation is fed into the model: only the specification.

On a disagreement the direct oracles of engine_corr are evaluated on that model: `ctx.violation` if one fails, otherwise
`ctx.brk("correspondence", ...)` with the layer (parameter values vs flows) found by replaying the L1 path.
"""
from __future__ import annotations

import ast
import math
import random as _random
import sys
from fractions import Fraction

import numpy as np

from . import core, engine_corr, genfw
from .core import q, unq

sys.set_int_max_str_digits(0)

RTOL = 1e-8     # the property's tolerance, relative to the compared value
DUST = 1e-11    # x people in the model at that index (floating-point dust of subtractions)
MAX_PTS = 11
MAX_ROWS = 6


BUDGET_BITS = 50000  # the driver stops a closed-loop run when a stock needs more bits than this (exact rationals grow quickly)


def csim_req(tokens, budget=None):
    return f"csim {BUDGET_BITS if budget is None else budget} {tokens}"


class Unsupported(Exception):
    """the built model uses something the closed-loop model does not cover (counted, not compared)"""


# ----------------------------------------------------------------------------------------------
# generation
# ----------------------------------------------------------------------------------------------
def gen_features(r):
    return {
        "n_norm": r.choice([2, 2, 3]),
        "npops": r.choice([1, 1, 2]),
        "nsteps": r.randint(3, MAX_PTS - 1),
        "junctions": r.choice([0, 0, 1, 1, 2]),
        "timed": r.choice([0, 0, 1]),
        "sinks": r.choice([0, 1]),
        "functions": r.random() < 0.8,
        "aggregation": r.random() < 0.5,
        "transfers": r.random() < 0.5,
        "dt": r.choice([1.0, 0.5, 0.25, 0.2, 0.1, 1 / 12, 0.3]),
    }


def enrich(spec, r):
    """More of what the property quantifies over than genfw.random_spec produces by itself: a characteristic with a denominator,
    functions of characteristics / parameters / time, a parameter feeding several others, limits and scale factors on data
    parameters, a function parameter that also has databook values, an output-only parameter reading a link flow."""
    pops = spec["pops"]
    stocks = [c["name"] for c in spec["comps"] if c["kind"] == "normal"]
    start = spec["settings"][0]
    a = r.choice(stocks)
    if r.random() < 0.7:
        spec["characs"].append({"name": "frac0", "components": [a], "denominator": "alive", "databook": False})
    has_frac = any(c["name"] == "frac0" for c in spec["characs"])
    if has_frac and r.random() < 0.12:
        # boundary of the ratio rule: an empty population (0/0 -> 0)
        xpop = r.choice(pops)
        for c in spec["comps"]:
            if c.get("init") and xpop in c["init"]:
                c["init"][xpop] = 0.0
    link_pars = [p for p in spec["pars"] if not p.get("timed") and p["format"] in ("rate", "probability", "number", "duration") and not (p.get("function") or "").startswith(("SRC_", "TGT_")) and p["name"] not in ("agg0", "agg1")]
    plain = [p for p in link_pars if not p.get("function")]
    # an auxiliary (non-transition) parameter used by others
    aux = None
    if r.random() < 0.6:
        form = r.choice([f"{a}/(alive+1)", "0.5+0.1*(t-%s)" % start, f"min(1,{a}/max(alive,1))", "frac0*2" if has_frac else f"{a}/(alive+2)", "1.5+0*dt"])
        aux = {"name": "aux0", "format": "number", "timescale": None, "function": form, "min": None, "max": None, "timed": False, "targetable": False, "databook": False, "value": {}}
        if r.random() < 0.4:
            aux["max"] = 0.75
        if r.random() < 0.3:
            aux["min"] = 0.6   # a lower limit that bites (the value feeds other parameters, so the index-wise clip matters)
        spec["pars"].append(aux)
    for p in r.sample(plain, min(len(plain), r.choice([0, 1, 2]))):
        k = genfw._val(r, "calibrated", p["format"])
        forms = [f"{k}*(1+0.05*(t-{start}))", f"{k}*{a}/(alive+1)+{k}"]
        if aux is not None:
            forms += [f"{k}*aux0", f"{k}*(1+aux0)", f"{k}*max(aux0,0.25)"]
        if has_frac:
            forms += [f"{k}*(1-frac0)", f"{k}*frac0/(frac0+0.5)"]
        p["function"] = r.choice(forms)
        if r.random() < 0.5:
            # keep databook values too: the function must win at every index
            p["databook"] = True
        else:
            p["databook"] = False
            p["value"] = {}
        if r.random() < 0.5:
            p["min"] = r.choice([0, round(0.9 * k, 4)])   # 0.9k bites for the forms k*aux0, k*(1-frac0), ... (index-wise lower clip)
        if r.random() < 0.4:
            p["max"] = r.choice([0.3, 1.0, 2.0]) if p["format"] != "number" else 30.0
    # limits and scale factors on data parameters
    yf = {}
    for p in spec["pars"]:
        if p.get("timed"):
            continue
        if p.get("function"):
            # scale factors apply to function and aggregation parameters as well (Parameter.update / update_pars)
            if r.random() < 0.25:
                yf[p["name"]] = {pop: r.choice([0.5, 1.5, 2.0]) for pop in pops}
                if r.random() < 0.5:
                    yf[p["name"]]["_meta"] = r.choice([0.8, 1.25])
            continue
        if p["format"] == "proportion":
            if r.random() < 0.3:
                p["min"], p["max"] = 0, 1
            continue
        if r.random() < 0.3:
            p["min"] = r.choice([0, 0.1])
        if r.random() < 0.3:
            p["max"] = r.choice([0.5, 1.0, 20.0])
        if r.random() < 0.3:
            yf[p["name"]] = {pop: r.choice([0.5, 1.5, 2.0, 0.0]) for pop in pops}
            if r.random() < 0.5:
                yf[p["name"]]["_meta"] = r.choice([0.8, 1.25])
    if yf:
        spec["y_factors"] = yf
    # boundary of the aggregation rule: all weights of one population zero (explicitly, or by leaving the pairs out) -> the
    # normalisation of an average divides by 1 instead of 0
    for it in spec.get("interactions") or []:
        if r.random() < 0.35:
            xpop = r.choice(pops)
            side = r.choice([0, 1])
            if r.random() < 0.5:
                it["pairs"] = [pr if pr[side] != xpop else [pr[0], pr[1], 0.0] for pr in it["pairs"]]
            else:
                kept = [pr for pr in it["pairs"] if pr[side] != xpop]
                if kept:
                    it["pairs"] = kept
    # time-varying interaction weights and transfer rates (interpolated on the simulation grid by Model.build)
    for grp in (spec.get("interactions") or []) + (spec.get("transfers") or []):
        for pr in grp["pairs"]:
            if isinstance(pr[2], (int, float)) and r.random() < 0.3:
                pr[2] = {"t": [start - 1, start + 0.5, start + 3], "v": [float(pr[2]), float(pr[2]) * r.choice([0.5, 1.0, 2.0]), float(pr[2]) * 0.25], "assumption": None}
    # output-only parameter reading a link flow (postcompute; must not influence anything)
    if r.random() < 0.3 and spec["transitions"]:
        s_, d_, pn = r.choice([t for t in spec["transitions"] if t[2] != ">"] or [spec["transitions"][0]])
        if pn != ">":
            spec["pars"].append({"name": "out0", "format": "number", "timescale": None, "function": f"{s_}:{d_}*2", "min": None, "max": None, "timed": False, "targetable": False, "databook": False, "value": {}})
    return spec


def gen_model(r, regime):
    """-> (spec, model) or raises RuntimeError"""
    import atomica as at
    from atomica.model import BadInitialization

    last = None
    for _ in range(30):
        spec = genfw.random_spec(r, regime, gen_features(r))
        spec = enrich(spec, r)
        try:
            m = genfw.run(spec, capture_preflush=True)
            return spec, m
        except (at.InvalidFramework, BadInitialization, AssertionError, at.ModelError) as e:
            last = e
        except Exception as e:  # e.g. circular dependency created by enrich: try again
            last = e
    raise RuntimeError(f"closed_corr generator: no acceptable model in 30 tries; last {type(last).__name__}: {str(last)[:120]}")


# ----------------------------------------------------------------------------------------------
# extraction: built Model + ParameterSet -> closed-loop spec tokens
# ----------------------------------------------------------------------------------------------
def _ts_tokens(ts):
    """<assumption|nan> <n> t1 v1 ..."""
    asm = ts.assumption
    a = "nan" if (asm is None or (isinstance(asm, float) and math.isnan(asm))) else q(float(asm))
    out = [a, str(len(ts.t))]
    for t, v in zip(ts.t, ts.vals):
        out += [q(float(t)), q(float(v))]
    return out


def _const_ts(v):
    return [q(float(v)), "0"]


def _lim(x, inf_sign):
    if x is None:
        return "-"
    x = float(x)
    if math.isinf(x):
        if (x > 0) == (inf_sign > 0):
            return "-"
        raise Unsupported("limit is an infinity of the wrong sign")
    if math.isnan(x):
        raise Unsupported("NaN limit")
    return q(x)


def extract(m, parset=None):
    """-> dict(net, tokens(str), pars(list of Parameter objects in model order), link_par_count)"""
    from atomica import model as M
    from props.c19 import ser

    parset = parset or m._verif_parset
    if m.progset is not None and m.program_instructions is not None:
        raise Unsupported("programs")
    if len({p.type for p in m.pops}) > 1:
        raise Unsupported("several population types")
    net = genfw.extract_net(m)
    comps = net["comps"]
    links = net["links"]
    cidx = {id(c): i for i, c in enumerate(comps)}
    lidx = {id(l): i for i, l in enumerate(links)}
    # every parameter of every population, link-driving ones first (as the engine net numbers them)
    pars = list(net["pars"])
    seen = {id(p) for p in pars}
    n_link = len(pars)
    for pop in m.pops:
        for p in pop.pars:
            if id(p) not in seen:
                seen.add(id(p))
                pars.append(p)
    pidx = {id(p): i for i, p in enumerate(pars)}
    net = dict(net)
    net["pars"] = pars
    net["units"] = list(net["units"]) + ["f"] * (len(pars) - n_link)
    net["tscale"] = list(net["tscale"]) + [1.0] * (len(pars) - n_link)
    characs = [c for pop in m.pops for c in pop.characs]
    kidx = {id(c): i for i, c in enumerate(characs)}

    def ref(v):
        if isinstance(v, M.Link):
            return ["l", str(lidx[id(v)])]
        if isinstance(v, M.Compartment):
            return ["c", str(cidx[id(v)])]
        if isinstance(v, M.Characteristic):
            return ["k", str(kidx[id(v)])]
        if isinstance(v, M.Parameter):
            return ["p", str(pidx[id(v)])]
        raise Unsupported(f"reference to {type(v).__name__}")

    if sum(net["nrows"]) > 40 or max(net["nrows"]) > MAX_ROWS * 4:
        raise Unsupported("too many keyring rows for exact closed-loop arithmetic")

    toks = [genfw.net_tokens(net), q(float(m.t[0])), q(float(m.dt)), str(len(m.t))]
    # ---- characteristics
    toks.append(str(len(characs)))
    for c in characs:
        toks.append(str(len(c.includes)))
        for inc in c.includes:
            toks += ref(inc)
        if c.denominator is not None:
            toks += ["1"] + ref(c.denominator)
        else:
            toks.append("0")
    # a topological order of ALL characteristics (the implementation orders the dynamic ones; values do not depend on which
    # topological order is used, the model checks that this one is topological)
    order, done = [], set()
    pending = list(range(len(characs)))
    while pending:
        progressed = False
        for k in list(pending):
            c = characs[k]
            need = [kidx[id(x)] for x in c.includes if isinstance(x, M.Characteristic)]
            if isinstance(c.denominator, M.Characteristic):
                need.append(kidx[id(c.denominator)])
            if all(n in done for n in need):
                order.append(k)
                done.add(k)
                pending.remove(k)
                progressed = True
        if not progressed:
            raise Unsupported("cyclic characteristics")
    toks += [str(k) for k in order]
    # ---- parameters
    fw_pars = m.framework.pars
    for p in pars:
        if p.derivative:
            raise Unsupported("derivative parameter")
        if p.skip_function:
            raise Unsupported("skip_function")
        pop = p.pop.name
        cascade = parset.pars[p.name] if p.name in parset.pars else None
        ts = None
        if cascade is not None:
            if getattr(cascade, "_interpolation_method", "linear") != "linear":
                raise Unsupported("interpolation method")
            if cascade.has_values(pop):
                ts = cascade.ts[pop]
        elif p.name not in fw_pars.index:
            # transfer parameter "<transfer>_<src>_to_<dst>"
            found = None
            for tname in parset.transfers:
                for src_pop, tpar in parset.transfers[tname].items():
                    for dst_pop in tpar.ts:
                        if p.name == "%s_%s_to_%s" % (tname, src_pop, dst_pop) and src_pop == pop:
                            found = tpar.ts[dst_pop]
            if found is None:
                raise Unsupported(f"parameter {p.name} has no source of values")
            ts = found
        if ts is not None:
            toks += ["1"] + _ts_tokens(ts)
        else:
            toks.append("0")
        toks.append(q(float(p.scale_factor)))
        if p.limits is None:
            toks += ["-", "-"]
        else:
            toks += [_lim(p.limits[0], -1), _lim(p.limits[1], +1)]
        if p.fcn_str is None:
            toks.append("D")
        elif p.pop_aggregation:
            agg = p.pop_aggregation
            fn, var = agg[0], agg[1]
            inter = agg[2] if len(agg) > 2 else None
            wvar = agg[3] if len(agg) > 3 else None
            src_vars = m._vars_by_pop[var]
            w_vars = m._vars_by_pop[wvar] if wvar else None
            toks += ["A", "1" if fn.endswith("AVG") else "0", str(len(src_vars))]
            for j, sv in enumerate(src_vars):
                if inter is None:
                    toks.append("0")
                else:
                    frm, to = (sv.pop.name, pop) if fn.startswith("SRC") else (pop, sv.pop.name)
                    owner = parset.interactions[inter].get(frm) if frm in parset.interactions[inter] else None
                    if owner is not None and to in owner.pops:
                        sc = Fraction(*float(owner.y_factor[to]).as_integer_ratio()) * Fraction(*float(owner.meta_y_factor).as_integer_ratio())
                        toks += ["1"] + _ts_tokens(owner.ts[to]) + [q(sc)]
                    else:
                        toks += ["1"] + _const_ts(0.0) + ["1"]
                toks += ref(sv)
                if w_vars is not None:
                    toks += ["1"] + ref(w_vars[j])
                else:
                    toks.append("0")
        else:
            src = p.fcn_str.replace(":", "___")
            tree = ast.parse(src, mode="eval")
            names = {n.id for n in ast.walk(tree) if isinstance(n, ast.Name)}
            deps = [(name, [ref(v) for v in vs]) for name, vs in p.deps.items()]
            # `dep_vals["t"] = self.t[ti]; dep_vals["dt"] = self.dt` are assigned last, so they win over a variable of that name
            deps = [d for d in deps if d[0] not in ("t", "dt")]
            if "t" in names:
                deps.append(("t", [["t", "0"]]))
            if "dt" in names:
                deps.append(("dt", [["d", "0"]]))
            toks += ["F", str(len(deps))]
            for name, refs in deps:
                toks += [name, str(len(refs))]
                for rf in refs:
                    toks += rf
            out = []
            ser(tree.body, out)
            toks += out
    # ---- execution order
    porder = []
    for name in m._exec_order["all_pars"]:
        for p in m._vars_by_pop[name]:
            if isinstance(p, M.Parameter):
                porder.append(pidx[id(p)])
    toks += [str(len(porder))] + [str(x) for x in porder]
    # ---- stocks before the initial flush
    pre = getattr(m, "_verif_preflush", None)
    if not pre:
        raise Unsupported("pre-flush stocks were not captured")
    for rows in pre["stock"]:
        for v in rows:
            if not math.isfinite(v):
                raise Unsupported("non-finite initial stock")
            toks.append(q(v))
    return {"net": net, "tokens": " ".join(toks), "pars": pars, "n_link": n_link}


# ----------------------------------------------------------------------------------------------
# reply parsing and comparison
# ----------------------------------------------------------------------------------------------
def parse_reply(net, rep):
    """-> (entries [(stock rows, flow rows, par values)], stop reason or None) | raises ValueError for err replies"""
    if not rep.startswith("ok"):
        raise ValueError(rep)
    parts = rep.split(" | ")
    n = int(parts[0].split()[1])
    entries, stop = [], None
    for sec in parts[1:]:
        if sec.startswith("nan"):
            stop = sec.split()[1]
            continue
        fields = sec.split(" ; ")
        st, ft = fields[0].split(), fields[1].split()
        pt = fields[2].split() if len(fields) > 2 else []
        stock, k = [], 0
        for nr in net["nrows"]:
            stock.append([unq(x) for x in st[k:k + nr]])
            k += nr
        flows, k = [], 0
        for L in net["lrows"]:
            flows.append([unq(x) for x in ft[k:k + L]])
            k += L
        entries.append((stock, flows, [unq(x) for x in pt]))
    assert len(entries) == n
    return entries, stop


def compare(m, net, entries, stop, upto=None):
    """-> list of dicts {t, kind: 'stock'|'flow', what}; only the FIRST disagreement (later ones follow from it)"""
    from atomica import model as M

    T = len(m.t)
    for ti, (stock, flows, _pv) in enumerate(entries):
        if upto is not None and ti >= upto:
            break
        impl_stock = genfw.snapshot_stock(m, ti)
        impl_fl = genfw.snapshot_flows(m, net, ti)
        people = max(1.0, sum(abs(v) for rows in impl_stock for v in rows if math.isfinite(v)))
        # source inflow is not in the stocks: allow dust relative to the largest flow as well
        people = max(people, max((abs(v) for rows in impl_fl for v in rows if math.isfinite(v)), default=0.0))
        atol = DUST * people
        for c, (mrow, irow) in enumerate(zip(stock, impl_stock)):
            for r, (mv, iv) in enumerate(zip(mrow, irow)):
                if not core.close(mv, iv, scale=0.0, rtol=RTOL, atol=atol):
                    return [{"t": ti, "kind": "stock", "what": f"stock of {net['comps'][c].id} row {r} at index {ti}: model {float(mv)!r} impl {iv!r}"}]
        for l, (mrow, irow) in enumerate(zip(flows, impl_fl)):
            if net["tlink"][l]:
                if len(mrow) != len(irow):
                    return [{"t": ti, "kind": "flow", "what": f"link {net['links'][l].id}: model has {len(mrow)} rows, impl {len(irow)}"}]
                pairs = list(zip(mrow, irow))
            else:
                pairs = [(sum(mrow, Fraction(0)), irow[0])]
            for r, (mv, iv) in enumerate(pairs):
                if not core.close(mv, iv, scale=0.0, rtol=RTOL, atol=atol):
                    return [{"t": ti, "kind": "flow", "what": f"flow of {net['links'][l].id} row {r} at index {ti}: model {float(mv)!r} impl {iv!r}"}]
    return []


def used_par(ex, i):
    p = ex["pars"][i]
    return i < ex["n_link"] or p._is_dynamic or p._precompute or (p.fcn_str is None)


def compare_pars(m, ex, entries, upto=None):
    """Values of the parameters the run USES (link-driving, dynamic, precomputed, data): model vs implementation at every index.
    -> first disagreement {t, kind: 'par', what, par} or []"""
    for ti, (_s, _f, pv) in enumerate(entries):
        if upto is not None and ti >= upto:
            break
        stock = genfw.snapshot_stock(m, ti)
        people = max(1.0, sum(abs(v) for rows in stock for v in rows if math.isfinite(v)))
        for i, p in enumerate(ex["pars"]):
            if not used_par(ex, i) or p.vals is None or i >= len(pv):
                continue
            mv, iv = pv[i], float(p.vals[ti])
            if mv is None:
                continue  # model: no value (NaN/inf/not modelled) = no claim
            if not core.close(mv, iv, scale=0.0, rtol=RTOL, atol=1e-10 * people):
                return [{"t": ti, "kind": "par", "par": i, "what": f"parameter {p.id} at index {ti}: model {float(mv)!r} impl {iv!r}" + (f" ({p.fcn_str})" if p.fcn_str else " (databook)")}]
    return []


def impl_nonfinite_at(m, net, ti):
    st = genfw.snapshot_stock(m, min(ti, len(m.t) - 1))
    fl = genfw.snapshot_flows(m, net, min(ti, len(m.t) - 1))
    pv = [float(p.vals[min(ti, len(m.t) - 1)]) for p in net["pars"] if p.vals is not None]
    return any(not math.isfinite(v) for rows in st + fl for v in rows) or any(not math.isfinite(v) for v in pv[:net.get("n_link", len(pv))])


def par_layer_diff(m, ex, entries, ti):
    """link-driving parameter values of index ti: model (csim reply) vs implementation. -> list of (par id, model, impl, units)"""
    out = []
    if ti >= len(entries):
        return out
    pv = entries[ti][2]
    for i in range(ex["n_link"]):
        p = ex["pars"][i]
        iv = float(p.vals[ti])
        mv = pv[i] if i < len(pv) else None
        if not core.close(mv, iv, scale=0.0, rtol=1e-9, atol=1e-13):
            out.append((p.id, None if mv is None else float(mv), iv, ex["net"]["units"][i]))
    return out


def _closure(m, pars):
    """ids of every Parameter and Characteristic the given parameters read, directly or through other parameters / characteristics"""
    from atomica import model as M

    seen, todo = set(), list(pars)
    while todo:
        v = todo.pop()
        if id(v) in seen:
            continue
        seen.add(id(v))
        if isinstance(v, M.Parameter):
            for vs in v.deps.values():
                todo += [x for x in vs if isinstance(x, (M.Parameter, M.Characteristic))]
            if v.pop_aggregation:
                for nm in [v.pop_aggregation[1]] + v.pop_aggregation[3:4]:
                    todo += [x for x in m._vars_by_pop[nm] if isinstance(x, (M.Parameter, M.Characteristic))]
        elif isinstance(v, M.Characteristic):
            todo += [x for x in v.includes if isinstance(x, M.Characteristic)]
            if isinstance(v.denominator, M.Characteristic):
                todo.append(v.denominator)
    return seen


def ambiguity(m, ex, entries, ti, focus=None):
    """Is index `ti` within rounding of a discontinuity of the documented rules?
    * duration conversion: fraction dt/(v*T) for v > 0 but 0 for v <= 0 -- v is dust (|v| < 1e-9) on one side and <= 0 on the other;
    * normalised average (SRC/TGT_POP_AVG): the weights are divided by their sum unless that sum is exactly 0 -- the sum is dust
      (< 1e-9 x the un-weighted interaction weights) in the implementation."""
    if ti < len(entries):
        pv = entries[ti][2]
        for i in range(ex["n_link"]):
            if ex["net"]["units"][i] != "d":
                continue
            iv = float(ex["pars"][i].vals[ti])
            mv = pv[i] if i < len(pv) else None
            if mv is None or not math.isfinite(iv):
                continue
            if (float(mv) <= 0) != (iv <= 0) and abs(float(mv)) < 1e-9 and abs(iv) < 1e-9:
                return "duration_zero"
    # ratio characteristic: quotient for a denominator > 0, but 0 (or inf) for a denominator <= 0.  People left in a drained
    # compartment are dust in one arithmetic and exactly 0 (or a different dust) in the other: 1e-27/1e-23 vs 0/0 -> 0
    cidx = {id(c): k for k, c in enumerate(ex["net"]["comps"])}
    mstock = entries[ti][0] if ti < len(entries) else None
    # only discontinuities that the disagreeing parameters (`focus`: indices; None = the link-driving ones) can see
    reach = _closure(m, [ex["pars"][i] for i in (focus if focus is not None else range(ex["n_link"]))])

    def impl_comp(c):
        return float(c.vals[ti])

    def model_comp(c):
        return float(sum(mstock[cidx[id(c)]], Fraction(0)))

    for pop in m.pops:
        for c in pop.characs:
            if c.denominator is None or id(c) not in reach:
                continue
            den_i = _charac_value(c.denominator, ti, impl_comp)
            num_i = sum(_charac_value(x, ti, impl_comp) for x in c.includes)
            den_m = _charac_value(c.denominator, ti, model_comp) if mstock is not None else den_i
            if abs(den_i) < 1e-9 and abs(den_m) < 1e-9 and not (den_i == 0 and den_m == 0):
                return "ratio_zero_denominator"
            if den_i <= 0 and abs(num_i - 1e-6) < 1e-12:
                return "ratio_zero_denominator"
    for p in ex["pars"]:
        agg = p.pop_aggregation
        if not agg or not agg[0].endswith("AVG") or len(agg) < 4 or id(p) not in reach:
            continue
        inter = m.interactions[agg[2]][:, :, ti]
        w = inter.T if agg[0].startswith("SRC") else inter
        wv = np.array([float(v[ti]) for v in m._vars_by_pop[agg[3]]])
        i = [q_.pop.name for q_ in m._vars_by_pop[p.name]].index(p.pop.name)
        norm = float(np.sum(w[i] * wv))
        ref = float(np.sum(np.abs(w[i]))) * max(1.0, float(np.max(np.abs(wv), initial=0.0)))
        if norm != 0.0 and abs(norm) < 1e-9 * max(ref, 1e-300) and ref > 0:
            return "average_zero_weight"
    return None


def l1_trajectory(m, net):
    """The L1 path: eflush + estep chained on the MODEL's own states, fed with the IMPLEMENTATION's parameter values.
    -> (entries [(stock, flows)], stop)"""
    nt = genfw.net_tokens(net)
    pre = m._verif_preflush
    pvpre = [pre["pv"].get(p.id, 0.0) for p in net["pars"]]
    pvpre = [0.0 if not math.isfinite(v) else v for v in pvpre]
    stock = [[Fraction(*float(v).as_integer_ratio()) for v in rows] for rows in pre["stock"]]
    rep = core.drive([f"eflush {nt} " + " ".join(q(v) for v in pvpre) + " " + " ".join(q(v) for rows in stock for v in rows)])[0]
    if not rep.startswith("ok"):
        return [], "flush"
    st = rep[3:].split()
    stock, k = [], 0
    for nr in net["nrows"]:
        stock.append([unq(x) for x in st[k:k + nr]])
        k += nr
    entries = []
    for ti in range(len(m.t)):
        pv = [float(p.vals[ti]) if p.vals is not None else 0.0 for p in net["pars"]]
        if any(not math.isfinite(pv[i]) for i in range(net.get("n_link", len(pv)))):
            return entries, "par"
        pv = [v if math.isfinite(v) else 0.0 for v in pv]
        rep = core.drive([f"estep {nt} {q(m.dt)} " + " ".join(q(v) for v in pv) + " " + " ".join(q(v) for rows in stock for v in rows)])[0]
        parsed = engine_corr.parse_step_reply(net, rep)
        if isinstance(parsed, str):
            return entries, "step"
        fl, nxt = parsed
        entries.append((stock, fl, []))
        stock = nxt
    return entries, None


def same_traj(a, b, tol=Fraction(1, 10**9)):
    """first index where two exact trajectories differ (relative tol), or None"""
    for ti, (ea, eb) in enumerate(zip(a, b)):
        for xa, xb in zip(ea[0] + ea[1], eb[0] + eb[1]):
            for va, vb in zip(xa, xb):
                if abs(va - vb) > tol * max(1, abs(va), abs(vb)):
                    return ti
    return None


# ----------------------------------------------------------------------------------------------
# the check
# ----------------------------------------------------------------------------------------------
def features_of(m, ex, spec):
    tags = set()
    from atomica import model as M

    for p in ex["pars"]:
        if p.fcn_str and not p.pop_aggregation:
            kinds = {type(v).__name__ for vs in p.deps.values() for v in vs}
            if kinds & {"Compartment", "TimedCompartment", "JunctionCompartment", "SinkCompartment"}:
                tags.add("fn.of_compartment")
            if "Characteristic" in kinds:
                tags.add("fn.of_characteristic")
                if any(isinstance(v, M.Characteristic) and v.denominator is not None for vs in p.deps.values() for v in vs):
                    tags.add("fn.of_ratio_characteristic")
            if "Parameter" in kinds:
                tags.add("fn.of_parameter")
            if any(isinstance(v, M.Link) for vs in p.deps.values() for v in vs):
                tags.add("fn.of_flow_output_only")
            if "t" in p.fcn_str.replace("t0", "").replace("alive", ""):
                pass
            if p._precompute:
                tags.add("fn.precompute")
            if p._is_dynamic:
                tags.add("fn.dynamic")
            if not p._precompute and not p._is_dynamic:
                tags.add("fn.postcompute")
            if p.limits is not None:
                tags.add("fn.limits")
        if p.pop_aggregation:
            tags.add("agg." + p.pop_aggregation[0] + (".weighted" if len(p.pop_aggregation) > 3 else "") + (".interaction" if len(p.pop_aggregation) > 2 else ""))
        if p.scale_factor != 1.0:
            tags.add("par.scaled")
        if p.fcn_str is None and p.limits is not None:
            tags.add("data.limits")
        if p.timescale not in (1.0, None) and isinstance(p.timescale, float) and math.isfinite(p.timescale):
            tags.add("par.timescale")
        if len(p.links) > 1:
            tags.add("par.several_links")
        if p.fcn_str is None and p.vals is not None and len(set(np.asarray(p.vals, dtype=float).tolist())) > 1:
            tags.add("data.timevarying")
    for grp, tag in ((spec.get("interactions") or [], "interaction.timevarying"), (spec.get("transfers") or [], "transfer.timevarying")):
        if any(isinstance(pr[2], dict) for g in grp for pr in g["pairs"]):
            tags.add(tag)
    for u in set(ex["net"]["units"][:ex["n_link"]]):
        tags.add("units." + {"f": "fraction", "d": "duration", "n": "number", "p": "proportion"}[u])
    pairs = {}
    for l in ex["net"]["links"]:
        if l.parameter is not None:
            pairs.setdefault((id(l.source), id(l.dest)), set()).add(id(l.parameter))
    if any(len(v) > 1 for v in pairs.values()):
        tags.add("link.several_parameters")
    return tags | engine_corr.nontrivial_features(m, ex["net"])


def check_one(ctx, prop, spec, m, key):
    """Run the closed-loop correspondence on one processed model. Returns 'ok' | 'unsupported' | 'break' | 'violation'."""
    try:
        ex = extract(m)
    except Unsupported as e:
        ctx.count("closed.unsupported")
        ctx.count("closed.unsupported." + str(e).split()[0])
        return "unsupported"
    net = ex["net"]
    net["n_link"] = ex["n_link"]
    rep = core.drive([csim_req(ex["tokens"])], timeout=900)[0]
    tags = features_of(m, ex, spec)
    for tg in tags:
        ctx.count(tg)
    ctx.case(key, nontrivial=bool(tags & {"fn.dynamic", "fn.of_parameter", "fn.of_characteristic", "agg.SRC_POP_AVG", "agg.TGT_POP_AVG", "agg.SRC_POP_SUM", "agg.TGT_POP_SUM", "has.transfer", "data.timevarying", "data.limits", "par.scaled"} or any(t.startswith("agg.") for t in tags)),
             sample={"case": key, "kinds": "".join(net["kinds"]), "n_links": len(net["links"]), "n_pars": len(ex["pars"]), "npts": len(m.t), "tags": sorted(tags)})
    ctx.hyp_checked += 1
    if rep.startswith("err"):
        wf = core.drive(["cwf " + ex["tokens"]])[0]
        ctx.brk("correspondence", f"closed-loop spec extracted from a built Model fails the model's well-formedness check ({rep}; {wf})", stage="closed-wf", case=key, spec=spec)
        return "break"
    ctx.hyp_held += 1
    # hypothesis of closed_total / closed_nonneg (junction proportions clipped at 0): decided by the driver, counted
    wfrep = core.drive(["cwf " + ex["tokens"]])[0]
    ctx.count("closed.hyp.propsClipped." + ("held" if "props=true" in wfrep else "not_held"))
    # hypotheses of the argument "evaluating every function parameter at every index = the code's precompute/dynamic/postcompute
    # schedule": (1) precomputed parameters read only t, dt and data/precomputed parameters (evalPars_static applies);
    # (2) nothing that is used (link-driving, dynamic, precomputed, aggregated) reads a postcomputed parameter or a link flow
    from atomica import model as M
    post = {id(p) for p in ex["pars"] if p.fcn_str and not p._is_dynamic and not p._precompute}
    ok_static = ok_post = True
    for i, p in enumerate(ex["pars"]):
        deps = [v for vs in p.deps.values() for v in vs]
        if p.pop_aggregation:
            deps += [v for nm in [p.pop_aggregation[1]] + p.pop_aggregation[3:4] for v in m._vars_by_pop[nm]]
        if p._precompute and not all(isinstance(v, M.Parameter) and not v._is_dynamic and (v.fcn_str is None or v._precompute) for v in deps):
            ok_static = False
        used = i < ex["n_link"] or p._is_dynamic or p._precompute
        if used and any(id(v) in post or isinstance(v, M.Link) for v in deps):
            ok_post = False
    ctx.hyp_checked += 2
    ctx.hyp_held += int(ok_static) + int(ok_post)
    if not (ok_static and ok_post):
        ctx.brk("correspondence", f"the implementation's evaluation schedule is not covered by the closed-loop argument (static precompute set: {ok_static}; postcomputed parameters unread: {ok_post})", stage="closed-schedule", case=key, spec=spec)
        return "break"
    entries, stop = parse_reply(net, rep)
    T = len(m.t)
    ctx.count("closed.compared_models")
    ctx.count("closed.compared_indices", len(entries))
    upto = None
    if stop is not None:
        ctx.count("closed.model_undefined." + stop)
        ti = len(entries)
        if stop != "big" and not impl_nonfinite_at(m, net, ti):
            if stop == "step":
                ctx.brk("correspondence", f"closed-loop model step undefined (0/0 at a junction) at index {ti} but the implementation is finite there", stage="closed-nan", case=key, spec=spec)
                return "break"
            ctx.count("closed.model_undefined_impl_finite")
    diffs = compare(m, net, entries, stop, upto)
    ctx.traces += 1
    if not diffs:
        # stocks and flows agree everywhere; the parameter values the run used must agree too (C06: the values of a run follow
        # the documented rules) -- they may differ without moving anybody, e.g. in an empty population
        diffs = compare_pars(m, ex, entries)
        ctx.count("closed.compared_parameter_values", sum(1 for i in range(len(ex["pars"])) if used_par(ex, i)) * len(entries))
    if not diffs:
        return "ok"
    d = diffs[0]
    ctx.disagreements_checked += 1
    ti = d["t"]
    # which layer?  stocks at index ti come from the flows of ti-1 (which agreed) unless ti == 0 (flush);
    # flows at ti come from the parameter values of ti and the (agreeing) stocks of ti
    pdiff = par_layer_diff(m, ex, entries, ti) if d["kind"] == "flow" else []
    # the two discontinuities of the rules themselves: a value that is floating-point dust in the implementation and exactly 0 in
    # exact arithmetic lands on different sides; that is not a disagreement about the rule (counted as ambiguous, not compared on)
    amb = ambiguity(m, ex, entries, ti, focus=[d["par"]] if d["kind"] == "par" else None)
    if amb:
        ctx.ambiguous += 1
        ctx.count("closed.ambiguous." + amb)
        return "ok"
    layer = "parameter values" if (pdiff or d["kind"] == "par") else ("initial flush" if (ti == 0 and d["kind"] == "stock") else "flows/update")
    what = f"closed loop, {layer}: {d['what']}" + (f"; parameter {pdiff[0][0]} model {pdiff[0][1]!r} impl {pdiff[0][2]!r}" if pdiff else "")
    ors, illposed = engine_corr.oracles(m, net)
    mine = [o for o in ors if o[0] == prop and not (illposed and o[1].get("oracle") == "finite")]
    # parameter-layer oracle: the documented aggregation rule (C03/C06)
    n_before = len(ctx.violations)
    try:
        from . import agg_corr
        agg_corr.check(ctx, [prop], spec, m, m._verif_parset, key)
    except Exception as e:
        ctx.notes.append("agg_corr: " + repr(e)[:200])
    for v in par_oracle(m, ex):
        ctx.violation({"api": "Model.update_pars", **v[0]}, v[1], {"spec": spec, "case": key, "how": "vlib.genfw.run(spec); vlib.closed_corr.par_oracle"})
    for (_p, okey, owhat) in mine:
        ctx.violation({"api": "Model.process", **okey}, owhat, {"spec": spec, "case": key, "how": "vlib.genfw.run(spec) then vlib.engine_corr.oracles"})
    if len(ctx.violations) > n_before:
        return "violation"
    ctx.brk("correspondence", what, stage="closed-" + ("pars" if (pdiff or d["kind"] == "par") else "flows"), case=key, spec=spec)
    return "break"


def par_oracle(m, ex):
    """Direct oracle on the implementation's parameter arrays (the property's rule, in floating point):
    every link-driving parameter lies within its limits at every index, and a function parameter that is not an aggregation
    equals clip(scale * f(dependency values of the same index)) when re-evaluated from the implementation's own arrays."""
    out = []
    from atomica import model as M

    T = len(m.t)
    for i, p in enumerate(ex["pars"]):
        if p.vals is None:
            continue
        v = np.asarray(p.vals, dtype=float)
        used = i < ex["n_link"] or p._is_dynamic or p._precompute
        if not used:
            continue
        if p.limits is not None and np.isfinite(v).all():
            if (v < p.limits[0] - 1e-12).any() or (v > p.limits[1] + 1e-12).any():
                t = int(np.argmax((v < p.limits[0] - 1e-12) | (v > p.limits[1] + 1e-12)))
                out.append(({"oracle": "limits"}, f"parameter {p.id} = {v[t]!r} at index {t} is outside its limits {p.limits}"))
                continue
        if p.fcn_str and not p.pop_aggregation and p._fcn is not None and not p.derivative and not p.skip_function:
            for ti in range(T):
                dep_vals = {}
                ok = True
                for name, deps in p.deps.items():
                    s = 0.0
                    for dep in deps:
                        if isinstance(dep, M.Link):
                            ok = False
                        elif isinstance(dep, M.Characteristic):
                            # recompute from compartments with the update rule
                            s += _charac_value(dep, ti)
                        else:
                            s += float(dep.vals[ti])
                    dep_vals[name] = s
                if not ok:
                    break
                dep_vals["t"] = m.t[ti]
                dep_vals["dt"] = m.dt
                try:
                    with np.errstate(all="ignore"):
                        e = float(p.scale_factor * p._fcn(**dep_vals))
                except Exception:
                    break
                if p.limits is not None:
                    e = min(max(e, p.limits[0]), p.limits[1])
                if math.isfinite(e) and math.isfinite(v[ti]) and abs(e - v[ti]) > 1e-9 * max(1.0, abs(e)):
                    out.append(({"oracle": "function-value"}, f"parameter {p.id} at index {ti}: stored {v[ti]!r}, but clip(scale*f(dependencies at that index)) = {e!r} ({p.fcn_str})"))
                    break
        elif p.fcn_str is None:
            # data parameter: interpolated databook value x y_factor x meta_y_factor, clipped to the limits
            parset = m._verif_parset
            if p.name in parset.pars and parset.pars[p.name].has_values(p.pop.name):
                cp = parset.pars[p.name]
                e = cp.interpolate(np.asarray(m.t), p.pop.name) * cp.y_factor[p.pop.name] * cp.meta_y_factor
                if p.limits is not None:
                    e = np.clip(e, p.limits[0], p.limits[1])
                bad = np.isfinite(e) & np.isfinite(v) & (np.abs(e - v) > 1e-9 * np.maximum(1.0, np.abs(e)))
                if bad.any():
                    t = int(np.argmax(bad))
                    out.append(({"oracle": "data-value"}, f"data parameter {p.id} at index {t}: stored {v[t]!r}, but clip(interpolated databook value * y_factor * meta_y_factor) = {e[t]!r}"))
    return out


def _charac_value(c, ti, comp_value=None):
    """`Characteristic.update` recomputed from compartment sizes (`comp_value(comp)`, default: the implementation's arrays);
    also accepts a compartment"""
    from atomica import model as M

    if comp_value is None:
        comp_value = lambda comp: float(comp.vals[ti])
    if not isinstance(c, M.Characteristic):
        return comp_value(c)
    s = 0.0
    for inc in c.includes:
        s += _charac_value(inc, ti, comp_value)
    if c.denominator is not None:
        d = _charac_value(c.denominator, ti, comp_value)
        if d > 0:
            s /= d
        elif s < 1e-6:
            s = 0.0
        else:
            s = math.inf
    return s


def _worker(sub, n, prop=None, regimes=None):
    import logging
    import atomica
    atomica.logger.setLevel(logging.ERROR)
    _run(sub, prop, n, regimes)


def _run(ctx, prop, n_models, regimes):
    for i in range(n_models):
        regime = regimes[i % len(regimes)]
        sub_seed = ctx.rng.randrange(1 << 30)
        rr = _random.Random(sub_seed)
        try:
            spec, m = gen_model(rr, regime)
        except RuntimeError as e:
            ctx.notes.append(str(e)[:200])
            ctx.count("closed.gen_failed")
            continue
        key = {"closed": True, "sub_seed": sub_seed, "regime": regime}
        ctx.count("closed.regime." + regime)
        try:
            check_one(ctx, prop, spec, m, key)
        except core.DriverError as e:
            ctx.brk("correspondence", f"driver failed on a closed-loop request: {str(e)[:200]}", stage="closed-driver", case=key, spec=spec)


def run_closed(ctx, prop, n_models, regimes=("calibrated", "boundary", "calibrated", "extreme"), workers=None):
    """Generate `n_models` small models and compare whole trajectories with the closed-loop Lean model."""
    if workers is None:
        workers = 12 if n_models >= 48 else 1
    if workers > 1:
        core.parallel(ctx, _worker, n_models, workers, prop=prop, regimes=regimes)
    else:
        _run(ctx, prop, n_models, regimes)


def replay_case(case, verbose=True):
    """Rebuild the model of a recorded case key ({'sub_seed', 'regime'}) and print the comparison."""
    rr = _random.Random(case["sub_seed"])
    spec, m = gen_model(rr, case["regime"])
    ex = extract(m)
    net = ex["net"]
    net["n_link"] = ex["n_link"]
    rep = core.drive([csim_req(ex["tokens"])], timeout=900)[0]
    if rep.startswith("err"):
        print("driver:", rep, core.drive(["cwf " + ex["tokens"]])[0])
        return 1
    entries, stop = parse_reply(net, rep)
    diffs = compare(m, net, entries, stop) or compare_pars(m, ex, entries)
    amb = ambiguity(m, ex, entries, diffs[0]["t"], focus=[diffs[0]["par"]] if diffs[0]["kind"] == "par" else None) if diffs else None
    if amb:
        print("first disagreement is within rounding of a discontinuity of the rule (ambiguous):", amb, diffs[0]["what"])
        return 0
    if verbose:
        print(f"indices computed by the model: {len(entries)} of {len(m.t)}; stop={stop}; first disagreement: {diffs[0]['what'] if diffs else None}")
        if diffs:
            print("parameter layer at that index:", par_layer_diff(m, ex, entries, diffs[0]["t"]))
            print("oracles:", engine_corr.oracles(m, net)[0], par_oracle(m, ex))
    return 1 if diffs else 0


# ----------------------------------------------------------------------------------------------
# self-checks of the driver paths
# ----------------------------------------------------------------------------------------------
def closed_selfcheck(ctx, n=3):
    """(a) memoised `csim` vs the reference path `csimref` (= `Closed.simulate` verbatim) on tiny models;
       (b) `csim` vs the L1 path (eflush/estep chained, fed with the implementation's parameter values): a difference there
           is in the parameter layer, not in the flow layer (both run the same `Engine.step`)."""
    done_ref = done_l1 = 0
    for i in range(40):
        if done_ref >= n and done_l1 >= n:
            break
        rr = _random.Random(ctx.seed * 104729 + i)
        feats = {"n_norm": 2, "npops": 1, "nsteps": 2, "junctions": rr.choice([0, 1]), "timed": 0, "sinks": 1, "functions": True, "aggregation": False, "transfers": False, "source": False, "dt": 0.5}
        try:
            spec = genfw.random_spec(rr, "calibrated", feats)
            spec = enrich(spec, rr)
            m = genfw.run(spec, capture_preflush=True)
            ex = extract(m)
        except Exception:
            continue
        net = ex["net"]
        net["n_link"] = ex["n_link"]
        if len(net["links"]) > 8:
            continue
        a = core.drive([csim_req(ex["tokens"])])[0]
        if not a.startswith("ok"):
            continue
        entries, stop = parse_reply(net, a)
        if done_ref < n and stop is None:
            # reference path on the first two indices only (exponential without memoisation)
            toks = ex["tokens"].split(" ")
            short = _with_npts(ex, net, 2)
            a2 = core.drive([csim_req(short)])[0]
            b2 = core.drive(["csimref " + short], timeout=900)[0]
            strip = lambda rep: " | ".join(" ; ".join(sec.split(" ; ")[:2]) for sec in rep.split(" | "))
            if strip(a2) != b2:
                ctx.brk("correspondence", "driver self-check: memoised csim differs from Closed.simulate (csimref)", stage="closed-driver")
            done_ref += 1
        if done_l1 < n:
            l1, l1stop = l1_trajectory(m, net)
            k = same_traj(entries, l1)
            if k is not None and not par_layer_diff(m, ex, entries, k):
                ctx.brk("correspondence", f"driver self-check: csim and the L1 path (same Engine.step, implementation's parameter values) differ at index {k} although the parameter values agree", stage="closed-driver")
            done_l1 += 1
    ctx.extra["closed_selfcheck_ref"] = done_ref
    ctx.extra["closed_selfcheck_l1"] = done_l1


def _with_npts(ex, net, npts):
    """the same request with a shorter horizon (the spec tokens carry npts right after the net, start and dt)"""
    nt = genfw.net_tokens(net)
    rest = ex["tokens"][len(nt) + 1:].split(" ")
    rest[2] = str(npts)
    return nt + " " + " ".join(rest)
