"""
vlib.closed_corr -- whole-simulation correspondence between atomica's Model and the closed-loop Lean model
`Atomica.Closed.simulate` (lean/AtomicaModel/Closed.lean).

For a generated model the REAL `Model` is built and processed (`genfw.run(spec, capture_preflush=True)`); the closed-loop
specification (net, characteristics, every parameter of every population with its databook series / scale factor / limits /
function tree with resolved dependencies / aggregation terms, execution order, grid, pre-flush stocks) is extracted from the
built Model + ParameterSet as exact rationals and sent to the driver (`csim`).  The reply holds every stock (row by row), every
link flow and every parameter value at every index; all stocks and flows are compared with the implementation's arrays to
rtol 1e-8 (the property's tolerance) plus a dust allowance of 1e-11 x (people in the model) for values that are differences of
large numbers.  No parameter value and no state of the implementation is fed into the model: only the specification.

On a disagreement the direct oracles of engine_corr are evaluated on that model: `ctx.violation` if one fails, otherwise
`ctx.brk("correspondence", ...)` with the layer (parameter values vs flows) found by replaying the L1 path.
"""
from __future__ import annotations

import ast
import math
import random as _random
import sys
from fractions import Fraction

import numpy as np

from . import core, engine_corr, genfw
from .core import q, unq

sys.set_int_max_str_digits(0)

RTOL = 1e-8     # the property's tolerance, relative to the compared value
DUST = 1e-11    # x people in the model at that index (floating-point dust of subtractions)
MAX_PTS = 11
MAX_ROWS = 6


BUDGET_BITS = 50000  # the driver stops a closed-loop run when a stock needs more bits than this (exact rationals grow quickly)


def csim_req(tokens, budget=None):
    return f"csim {BUDGET_BITS if budget is None else budget} {tokens}"


class Unsupported(Exception):
    """the built model uses something the closed-loop model does not cover (counted, not compared)"""


# ----------------------------------------------------------------------------------------------
# generation
# ----------------------------------------------------------------------------------------------
def gen_features(r):
    return {
        "n_norm": r.choice([2, 2, 3]),
        "npops": r.choice([1, 1, 2]),
        "nsteps": r.randint(3, MAX_PTS - 1),
        "junctions": r.choice([0, 0, 1, 1, 2]),
        "timed": r.choice([0, 0, 1]),
        "sinks": r.choice([0, 1]),
        "functions": r.random() < 0.8,
        "aggregation": r.random() < 0.5,
        "transfers": r.random() < 0.5,
        "dt": r.choice([1.0, 0.5, 0.25, 0.2, 0.1, 1 / 12, 0.3]),
    }


def enrich(spec, r):
    """More of what the property quantifies over than genfw.random_spec produces by itself: a characteristic with a denominator,
    functions of characteristics / parameters / time, a parameter feeding several others, limits and scale factors on data
    parameters, a function parameter that also has databook values, an output-only parameter reading a link flow."""
    pops = spec["pops"]
    stocks = [c["name"] for c in spec["comps"] if c["kind"] == "normal"]
    start = spec["settings"][0]
    a = r.choice(stocks)
    if r.random() < 0.7:
        spec["characs"].append({"name": "frac0", "components": [a], "denominator": "alive", "databook": False})
    has_frac = any(c["name"] == "frac0" for c in spec["characs"])
    if has_frac and r.random() < 0.12:
        # boundary of the ratio rule: an empty population (0/0 -> 0)
        xpop = r.choice(pops)
        for c in spec["comps"]:
            if c.get("init") and xpop in c["init"]:
                c["init"][xpop] = 0.0
    link_pars = [p for p in spec["pars"] if not p.get("timed") and p["format"] in ("rate", "probability", "number", "duration") and not (p.get("function") or "").startswith(("SRC_", "TGT_")) and p["name"] not in ("agg0", "agg1")]
    plain = [p for p in link_pars if not p.get("function")]
    # an auxiliary (non-transition) parameter used by others
    aux = None
    if r.random() < 0.6:
        form = r.choice([f"{a}/(alive+1)", "0.5+0.1*(t-%s)" % start, f"min(1,{a}/max(alive,1))", "frac0*2" if has_frac else f"{a}/(alive+2)", "1.5+0*dt"])
        aux = {"name": "aux0", "format": "number", "timescale": None, "function": form, "min": None, "max": None, "timed": False, "targetable": False, "databook": False, "value": {}}
        if r.random() < 0.4:
            aux["max"] = 0.75
        if r.random() < 0.3:
            aux["min"] = 0.6   # a lower limit that bites (the value feeds other parameters, so the index-wise clip matters)
        spec["pars"].append(aux)
    for p in r.sample(plain, min(len(plain), r.choice([0, 1, 2]))):
        k = genfw._val(r, "calibrated", p["format"])
        forms = [f"{k}*(1+0.05*(t-{start}))", f"{k}*{a}/(alive+1)+{k}"]
        if aux is not None:
            forms += [f"{k}*aux0", f"{k}*(1+aux0)", f"{k}*max(aux0,0.25)"]
        if has_frac:
            forms += [f"{k}*(1-frac0)", f"{k}*frac0/(frac0+0.5)"]
        p["function"] = r.choice(forms)
        if r.random() < 0.5:
            # keep databook values too: the function must win at every index
            p["databook"] = True
        else:
            p["databook"] = False
            p["value"] = {}
        if r.random() < 0.5:
            p["min"] = r.choice([0, round(0.9 * k, 4)])   # 0.9k bites for the forms k*aux0, k*(1-frac0), ... (index-wise lower clip)
        if r.random() < 0.4:
            p["max"] = r.choice([0.3, 1.0, 2.0]) if p["format"] != "number" else 30.0
    # limits and scale factors on data parameters
    yf = {}
    for p in spec["pars"]:
        if p.get("timed"):
            continue
        if p.get("function"):
            # scale factors apply to function and aggregation parameters as well (Parameter.update / update_pars)
            if r.random() < 0.25:
                yf[p["name"]] = {pop: r.choice([0.5, 1.5, 2.0]) for pop in pops}
                if r.random() < 0.5:
                    yf[p["name"]]["_meta"] = r.choice([0.8, 1.25])
            continue
        if p["format"] == "proportion":
            if r.random() < 0.3:
                p["min"], p["max"] = 0, 1
            continue
        if r.random() < 0.3:
            p["min"] = r.choice([0, 0.1])
        if r.random() < 0.3:
            p["max"] = r.choice([0.5, 1.0, 20.0])
        if r.random() < 0.3:
            yf[p["name"]] = {pop: r.choice([0.5, 1.5, 2.0, 0.0]) for pop in pops}
            if r.random() < 0.5:
                yf[p["name"]]["_meta"] = r.choice([0.8, 1.25])
    if yf:
        spec["y_factors"] = yf
    # boundary of the aggregation rule: all weights of one population zero (explicitly, or by leaving the pairs out) -> the
    # normalisation of an average divides by 1 instead of 0
    for it in spec.get("interactions") or []:
        if r.random() < 0.35:
            xpop = r.choice(pops)
            side = r.choice([0, 1])
            if r.random() < 0.5:
                it["pairs"] = [pr if pr[side] != xpop else [pr[0], pr[1], 0.0] for pr in it["pairs"]]
            else:
                kept = [pr for pr in it["pairs"] if pr[side] != xpop]
                if kept:
                    it["pairs"] = kept
    # time-varying interaction weights and transfer rates (interpolated on the simulation grid by Model.build)
    for grp in (spec.get("interactions") or []) + (spec.get("transfers") or []):
        for pr in grp["pairs"]:
            if isinstance(pr[2], (int, float)) and r.random() < 0.3:
                pr[2] = {"t": [start - 1, start + 0.5, start + 3], "v": [float(pr[2]), float(pr[2]) * r.choice([0.5, 1.0, 2.0]), float(pr[2]) * 0.25], "assumption": None}
    # output-only parameter reading a link flow (postcompute; must not influence anything)
    if r.random() < 0.3 and spec["transitions"]:
        s_, d_, pn = r.choice([t for t in spec["transitions"] if t[2] != ">"] or [spec["transitions"][0]])
        if pn != ">":
            spec["pars"].append({"name": "out0", "format": "number", "timescale": None, "function": f"{s_}:{d_}*2", "min": None, "max": None, "timed": False, "targetable": False, "databook": False, "value": {}})
    return spec


def enrich_scenarios(spec, r, regime="calibrated"):
    """Parameter scenarios on FUNCTION parameters (`ParameterScenario.get_parset` writes a skip window from the first scenario year
    on, inside which the function / aggregation is not evaluated and the pre-interpolated scenario series is used): linear and
    stepped, first year on / off the grid / at the first / last time point, one or several populations, dynamic / precompute /
    output-only / aggregation parameters; sometimes the window is closed again (`skip_function = (lo, hi)`, hi on / off the grid)."""
    import atomica as at

    start, end, dt = spec["settings"]
    tv = [float(t) for t in at.ProjectSettings(sim_start=start, sim_end=end, sim_dt=dt).tvec]   # the time vector the model will use (its floats)
    n = len(tv) - 1
    cands = [p for p in spec["pars"] if p.get("function") and not p.get("timed") and not p.get("derivative")]
    if not cands or n < 2:
        return spec
    scen = []
    for g, p in enumerate(r.sample(cands, min(len(cands), r.choice([1, 1, 2])))):
        own = genfw.pops_of_item(spec, p)   # a parameter exists only in the populations of its type
        pops = r.sample(own, r.choice([1, len(own)]))
        interp = r.choice(["linear", "previous"])
        for pop in pops:
            k = r.choice([0, 1, 1, 2, 2, 3, n - 1, n, r.randint(0, n)])
            k = max(0, min(n, k))
            x = r.random()
            if x < 0.55:
                t0 = tv[k]                               # on the grid: exactly the float the time vector holds
            elif x < 0.85:
                kk = min(k, n - 1)
                t0 = tv[kk] + r.choice([0.5, 0.25, 0.013]) * (tv[kk + 1] - tv[kk])   # strictly between two time points
            else:
                t0 = start - r.choice([0.5, 1.0])        # before the run: the window covers every index
            fmt = p["format"]
            nv = r.choice([1, 2, 2, 3])
            # later points: on the grid (the exact floats of the time vector) or well inside a step -- never within rounding of a time point
            # (a steep chord that ends a few ulps from a grid point makes the value there a matter of float rounding of t)
            later = [tv[j] for j in range(n + 1) if tv[j] > t0] + [tv[j] + 0.5 * (tv[j + 1] - tv[j]) for j in range(n) if tv[j] + 0.5 * (tv[j + 1] - tv[j]) > t0] + [tv[-1] + 1.0, tv[-1] + 2.5]
            ts = sorted(set([t0] + r.sample(later, min(len(later), nv - 1))))
            ys = [genfw._val(r, regime if regime != "extreme" else "calibrated", fmt) for _ in ts]
            e = {"par": p["name"], "pop": pop, "t": ts, "y": ys, "interp": interp, "group": g, "hi": None}
            if r.random() < 0.35:
                kh = r.randint(k, n)
                e["hi"] = tv[kh] if r.random() < 0.6 else tv[kh] + r.choice([0.5, 0.3]) * dt
                if e["hi"] < t0:
                    e["hi"] = t0
            scen.append(e)
    spec["scenarios"] = scen
    return spec


def enrich_derivative(spec, r, regime="calibrated"):
    """Derivative parameters ("is derivative" = y): the function is the rate of change, the databook value is the value of index 0.
    Non-transition accumulators (constant / zero / state-dependent / self-referencing rates, limits that bite, scale factors) that
    other parameters read — among them link-driving ones — and link-driving parameters that are derivative themselves."""
    pops = spec["pops"]
    start = spec["settings"][0]
    stocks = [c["name"] for c in spec["comps"] if c["kind"] == "normal"]
    a = r.choice(stocks)
    has_frac = any(c["name"] == "frac0" for c in spec["characs"])
    has_aux = any(p["name"] == "aux0" for p in spec["pars"])
    base = {"timescale": None, "min": None, "max": None, "timed": False, "targetable": False, "databook": True, "derivative": True}
    yf = spec.setdefault("y_factors", {})
    made = []
    # 1. an accumulator
    if r.random() < 0.8:
        x = r.random()
        if x < 0.25:
            forms = ["0.2", "0", "-0.3", "0*t", "dt", "0.7"]                       # a constant rate
        elif x < 0.5:
            forms = ["acc0*0.01 + %s/(alive+1)" % a, "0.1*(1-acc0)", "0.05*(t-%s)" % start, "%s/(alive+1)-0.5" % a, "0.3*acc0"]    # itself, time, the state
            if has_frac:
                forms += ["0.5*frac0", "acc0*0.01 + frac0"]
        else:
            # the rate reads a DYNAMIC function parameter of the same index (its place in the execution order matters: the rate must be
            # evaluated after that parameter and from its value of THIS index)
            src = "aux0" if (has_aux and r.random() < 0.4) else "dsrc0"
            if src == "dsrc0":
                spec["pars"].append(dict(base, name="dsrc0", format="number", function=r.choice([f"{a}/(alive+1)", f"2*{a}/({a}+50)", "0.5*frac0+0.1" if has_frac else f"{a}/(alive+2)"]),
                                         derivative=False, databook=False, value={}))
            forms = [f"0.5*{src}", f"{src}-acc0", f"acc0*0.01+{src}", f"0.3*{src}-0.1"]
        f = r.choice(forms)
        acc = dict(base, name="acc0", format="number", function=f, value={})
        for pop in pops:
            v0 = r.choice([0.0, 0.1, 0.5, 1.0, round(r.random(), 3)])
            acc["value"][pop] = v0 if r.random() < 0.7 else {"t": [start - 1, start + 1], "v": [v0, v0 + 1.0], "assumption": None}   # only the value at the first time point counts
        if r.random() < 0.5:
            acc["max"] = r.choice([0.3, 0.6, 1.0, 1.2])    # upper limits that the Euler steps reach (the clipped value is what the next step starts from)
        if r.random() < 0.4:
            acc["min"] = r.choice([0, 0.05, 0.2])
        if r.random() < 0.25:
            yf["acc0"] = {pop: r.choice([0.5, 1.5, 2.0]) for pop in pops}
            if r.random() < 0.5:
                yf["acc0"]["_meta"] = r.choice([0.8, 1.25])
        spec["pars"].append(acc)
        made.append("acc0")
        # readers: link-driving parameters (function of the accumulator), so that it drives transitions
        plain = [p for p in spec["pars"] if not p.get("timed") and not p.get("derivative") and p["format"] in ("rate", "probability", "number", "duration") and not p.get("function")
                 and any(t[2] == p["name"] for t in spec["transitions"])]
        for p in r.sample(plain, min(len(plain), r.choice([1, 1, 2]))):
            k = genfw._val(r, "calibrated", p["format"])
            p["function"] = r.choice([f"{k}*acc0", f"{k}*max(acc0,0.1)", f"{k}*(1+acc0)", f"{k}+0.1*acc0"])
            if r.random() < 0.5:
                p["databook"] = False
                p["value"] = {}
            if p["format"] != "number" and r.random() < 0.5:
                p["max"] = r.choice([1.0, 2.0])
            p["min"] = 0 if r.random() < 0.6 else p.get("min")
        # an output-only reader
        if r.random() < 0.3:
            spec["pars"].append(dict(base, name="accout", format="number", function="2*acc0+1", derivative=False, databook=False, value={}))
    # 2. a link-driving parameter that is a derivative parameter itself
    if r.random() < 0.5:
        cand = [p for p in spec["pars"] if not p.get("timed") and not p.get("derivative") and p["format"] in ("rate", "probability", "number") and not p.get("function")
                and any(t[2] == p["name"] for t in spec["transitions"]) and not any(c["kind"] == "junction" and t[0] == c["name"] for c in spec["comps"] for t in spec["transitions"] if t[2] == p["name"])]
        if cand:
            p = r.choice(cand)
            k = genfw._val(r, "calibrated", p["format"])
            p["derivative"] = True
            p["function"] = r.choice([f"{round(0.2 * k, 4)}", f"-{round(0.5 * k, 4)}", f"0.1*({k}-{p['name']})", f"{round(0.1 * k, 4)}*{a}/(alive+1)", "0"])
            p["databook"] = True
            for pop in pops:
                if not isinstance(p["value"].get(pop), (int, float)):
                    p["value"][pop] = k
            p["min"] = 0 if r.random() < 0.7 else None
            if r.random() < 0.4:
                p["max"] = round(1.5 * k + 0.01, 4)
            made.append(p["name"])
    if not yf:
        spec.pop("y_factors", None)
    return spec


def _rename(obj, mapping, pat=None):
    """rename identifiers in every string of a JSON-like object (whole words)"""
    import re

    pat = pat or re.compile(r"\b(" + "|".join(sorted(map(re.escape, mapping), key=len, reverse=True)) + r")\b")
    if isinstance(obj, str):
        return pat.sub(lambda mm: mapping[mm.group(1)], obj)
    if isinstance(obj, list):
        return [_rename(x, mapping, pat) for x in obj]
    if isinstance(obj, dict):
        return {(_rename(k, mapping, pat) if isinstance(k, str) else k): _rename(v, mapping, pat) for k, v in obj.items()}
    return obj


def two_types(spec, r, regime):
    """A second population type `tb` next to the given model (type `ta`): its own compartments, characteristics, parameters and
    populations (names suffixed `y`, populations `q*`), and cross-type coupling: an interaction from `ta` to `tb` and aggregation
    parameters of type `tb` that average / sum a `ta` variable over the `ta` populations (SRC_POP_AVG / SRC_POP_SUM, with and
    without the interaction, optionally weighted by a `ta` variable) and drive a `tb` transition."""
    start, end, dt = spec["settings"]
    f2 = {"start": start, "dt": dt, "nsteps": int(round((end - start) / dt)), "npops": r.choice([1, 2]), "n_norm": r.choice([2, 2, 3]), "junctions": r.choice([0, 0, 1]),
          "timed": 0, "sinks": r.choice([0, 1]), "functions": r.random() < 0.7, "aggregation": r.random() < 0.3, "transfers": r.random() < 0.3}
    spec2 = genfw.random_spec(r, regime, f2)
    names = [c["name"] for c in spec2["comps"]] + [c["name"] for c in spec2["characs"]] + [p["name"] for p in spec2["pars"]] + [i["name"] for i in spec2["interactions"]] + [t["name"] for t in spec2["transfers"]]
    mapping = {n: n + "y" for n in names}
    mapping.update({p: "q" + p[1:] for p in spec2["pops"]})
    spec2 = _rename(spec2, mapping)
    out = dict(spec)
    out["pop_types"] = ["ta", "tb"]
    out["pop_type_of"] = {p: "ta" for p in spec["pops"]}
    out["pop_type_of"].update({p: "tb" for p in spec2["pops"]})
    for key in ("comps", "characs", "pars", "transfers"):
        out[key] = [dict(x, pop_type="ta") for x in spec.get(key, [])] + [dict(x, pop_type="tb") for x in spec2.get(key, [])]
    out["interactions"] = [dict(x, from_type="ta", to_type="ta") for x in spec.get("interactions", [])] + [dict(x, from_type="tb", to_type="tb") for x in spec2.get("interactions", [])]
    out["transitions"] = spec["transitions"] + spec2["transitions"]
    out["pops"] = spec["pops"] + spec2["pops"]
    # cross-type coupling
    pa, pb = spec["pops"], spec2["pops"]
    stocks_a = [c["name"] for c in spec["comps"] if c["kind"] == "normal"]
    stocks_b = [c["name"] for c in spec2["comps"] if c["kind"] == "normal"]
    var = r.choice(stocks_a + ["alive"] + [p["name"] for p in spec["pars"] if p["name"] in ("aux0", "acc0")])
    wv = r.choice(stocks_a + ["alive"])
    pairs = [[a, b, round(r.random() * 2, 3)] for a in pa for b in pb if r.random() < 0.85]
    if r.random() < 0.25 and pairs:
        pairs[0][2] = 0.0
    forms = [f"SRC_POP_AVG({var})", f"SRC_POP_SUM({var})"]
    if pairs:
        out["interactions"].append({"name": "wx", "pairs": pairs, "from_type": "ta", "to_type": "tb"})
        forms = [f"SRC_POP_AVG({var}, wx)", f"SRC_POP_SUM({var}, wx)", f"SRC_POP_AVG({var}, wx, {wv})", f"SRC_POP_AVG({var}, wx)", f"SRC_POP_AVG({var})"]
    base = {"format": "number", "timescale": None, "min": None, "max": None, "timed": False, "targetable": False, "databook": False, "value": {}, "pop_type": "tb"}
    out["pars"].append(dict(base, name="xagg", function=r.choice(forms)))
    if r.random() < 0.4:
        out["pars"][-1]["max"] = r.choice([50.0, 500.0])
    # a tb transition parameter driven by the cross-type aggregate
    cand = [p for p in out["pars"] if p.get("pop_type") == "tb" and not p.get("timed") and p["format"] in ("rate", "probability") and not p.get("function")
            and any(t[2] == p["name"] for t in out["transitions"])]
    if cand:
        p = r.choice(cand)
        p["function"] = f"{round(r.random(), 3)}*xagg/(xagg+alivey+1)"
        p["databook"] = False
        p["value"] = {}
        p["min"] = 0
    else:
        out["pars"].append(dict(base, name="xout", function="2*xagg"))
    return out


def restrict_to_type(spec, t):
    """the single-type model made of the items of type `t` of a several-type spec (no cross-type coupling left)"""
    keep = lambda x: (x.get("pop_type") or spec["pop_types"][0]) == t
    comps = [c for c in spec["comps"] if keep(c)]
    cn = {c["name"] for c in comps}
    pars = [p for p in spec["pars"] if keep(p)]
    pn = {p["name"] for p in pars}
    out = {k: v for k, v in spec.items() if k not in ("pop_types", "pop_type_of")}
    out["comps"] = [{k: v for k, v in c.items() if k != "pop_type"} for c in comps]
    out["characs"] = [{k: v for k, v in c.items() if k != "pop_type"} for c in spec["characs"] if keep(c)]
    out["pars"] = [{k: v for k, v in p.items() if k != "pop_type"} for p in pars]
    out["transitions"] = [tr for tr in spec["transitions"] if tr[0] in cn]
    out["pops"] = genfw.pops_of_type(spec, t)
    out["transfers"] = [{k: v for k, v in x.items() if k != "pop_type"} for x in spec.get("transfers", []) if keep(x)]
    out["interactions"] = [{k: v for k, v in x.items() if k not in ("from_type", "to_type")} for x in spec.get("interactions", [])
                           if (x.get("from_type") or spec["pop_types"][0]) == t and (x.get("to_type") or spec["pop_types"][0]) == t]
    if spec.get("y_factors"):
        out["y_factors"] = {k: v for k, v in spec["y_factors"].items() if k in pn}
    if spec.get("scenarios"):
        out["scenarios"] = [e for e in spec["scenarios"] if e["par"] in pn]
    return out


def typed_crash_oracle(spec, exc):
    """Type separation on the implementation alone: a two-type model whose `ta` half is, by itself, a model the library builds and runs
    (the `tb` half is an independently generated single-type model plus aggregations over `ta` variables) must build and run too.
    An exception that is not a documented refusal (InvalidFramework / BadInitialization) while the `ta` half alone runs -> (key, what)"""
    import atomica as at
    from atomica.model import BadInitialization

    if not spec.get("pop_types") or isinstance(exc, (at.InvalidFramework, BadInitialization)):
        return None
    try:
        genfw.run(restrict_to_type(spec, "ta"))
    except Exception:
        return None
    if spec.get("scenarios"):
        # not a matter of types if the scenario is what is refused: the same model without its scenarios must fail as well
        try:
            genfw.run({k: v for k, v in spec.items() if k != "scenarios"})
            return None
        except (at.InvalidFramework, BadInitialization):
            return None
        except Exception as e2:
            exc = e2
    return ({"oracle": "two-type-model-crashes"}, f"a model with two population types could not be built/run ({type(exc).__name__}: {str(exc)[:200]}) although its first type alone runs; "
            "parameters, compartments and characteristics must exist only in the populations of their type")


def gen_model(r, regime, on_reject=None, force=()):
    """-> (spec, model) or raises RuntimeError; `on_reject(spec, exception)` sees every rejected candidate;
    `force`: features every model must have ("scenarios", "derivative", "types")"""
    import atomica as at
    from atomica.model import BadInitialization

    last = None
    for _ in range(30):
        spec = genfw.random_spec(r, regime, gen_features(r))
        spec = enrich(spec, r)
        if r.random() < 0.4 or "derivative" in force:
            spec = enrich_derivative(spec, r, regime)
        if r.random() < 0.25 or "types" in force:
            spec = two_types(spec, r, regime)
        if r.random() < 0.4 or "scenarios" in force:
            spec = enrich_scenarios(spec, r, regime)
        if ("scenarios" in force and not spec.get("scenarios")) or ("derivative" in force and not any(p.get("derivative") for p in spec["pars"])):
            continue
        try:
            m = genfw.run(spec, capture_preflush=True)
            return spec, m
        except (at.InvalidFramework, BadInitialization, AssertionError, at.ModelError) as e:
            last = e
            if on_reject is not None:
                on_reject(spec, e)
        except Exception as e:  # e.g. circular dependency created by enrich: try again
            last = e
            if on_reject is not None:
                on_reject(spec, e)
    raise RuntimeError(f"closed_corr generator: no acceptable model in 30 tries; last {type(last).__name__}: {str(last)[:120]}")


# ----------------------------------------------------------------------------------------------
# extraction: built Model + ParameterSet -> closed-loop spec tokens
# ----------------------------------------------------------------------------------------------
def _ts_tokens(ts, snap=None):
    """<assumption|nan> <n> t1 v1 ...   (`snap`: a data year that IS a point of the float time vector is sent as the exact grid point of
    that index -- a scenario parset holds one point per simulation time -- any other year as the exact float)"""
    asm = ts.assumption
    a = "nan" if (asm is None or (isinstance(asm, float) and math.isnan(asm))) else q(float(asm))
    out = [a, str(len(ts.t))]
    for t, v in zip(ts.t, ts.vals):
        tt = float(t)
        out += [q(snap(tt) if (snap is not None and math.isfinite(tt)) else tt), q(float(v))]
    return out


def _const_ts(v):
    return [q(float(v)), "0"]


def _lim(x, inf_sign):
    if x is None:
        return "-"
    x = float(x)
    if math.isinf(x):
        if (x > 0) == (inf_sign > 0):
            return "-"
        raise Unsupported("limit is an infinity of the wrong sign")
    if math.isnan(x):
        raise Unsupported("NaN limit")
    return q(x)


def fr(x):
    return Fraction(*float(x).as_integer_ratio())


def snapper(m):
    """A year that IS a point of the float time vector (`t == m.t[k]`) means "index k": it is sent to the model as the exact grid
    point `t[0] + k*dt` (the model's time of index k), any other year as the exact value of the float."""
    grid = {float(t): k for k, t in enumerate(m.t)}
    t0, dt = fr(m.t[0]), fr(m.dt)

    def snap(t):
        t = float(t)
        return t0 + grid[t] * dt if t in grid else fr(t)

    return snap


def window_ambiguous(m):
    """the float time vector and the exact grid `start + i*dt` fall on different sides of a skip-window bound: no claim"""
    t0, dt = fr(m.t[0]), fr(m.dt)
    snap = snapper(m)
    bounds = set()
    for pop in m.pops:
        for p in pop.pars:
            if p.skip_function:
                bounds.update(float(b) for b in p.skip_function if math.isfinite(float(b)))
    for b in bounds:
        be = snap(b)
        for i in range(len(m.t)):
            tf, te = float(m.t[i]), t0 + i * dt
            if (tf < b) != (te < be) or (tf <= b) != (te <= be):
                return True
    return False


def extract(m, parset=None):
    """-> dict(net, tokens(str), pars(list of Parameter objects in model order), link_par_count)"""
    from atomica import model as M
    from props.c19 import ser

    parset = parset or m._verif_parset
    if m.progset is not None and m.program_instructions is not None:
        raise Unsupported("programs")
    net = genfw.extract_net(m)
    comps = net["comps"]
    links = net["links"]
    cidx = {id(c): i for i, c in enumerate(comps)}
    lidx = {id(l): i for i, l in enumerate(links)}
    # every parameter of every population, link-driving ones first (as the engine net numbers them)
    pars = list(net["pars"])
    seen = {id(p) for p in pars}
    n_link = len(pars)
    for pop in m.pops:
        for p in pop.pars:
            if id(p) not in seen:
                seen.add(id(p))
                pars.append(p)
    pidx = {id(p): i for i, p in enumerate(pars)}
    net = dict(net)
    net["pars"] = pars
    net["units"] = list(net["units"]) + ["f"] * (len(pars) - n_link)
    net["tscale"] = list(net["tscale"]) + [1.0] * (len(pars) - n_link)
    characs = [c for pop in m.pops for c in pop.characs]
    kidx = {id(c): i for i, c in enumerate(characs)}

    def ref(v):
        if isinstance(v, M.Link):
            return ["l", str(lidx[id(v)])]
        if isinstance(v, M.Compartment):
            return ["c", str(cidx[id(v)])]
        if isinstance(v, M.Characteristic):
            return ["k", str(kidx[id(v)])]
        if isinstance(v, M.Parameter):
            return ["p", str(pidx[id(v)])]
        raise Unsupported(f"reference to {type(v).__name__}")

    if sum(net["nrows"]) > 40 or max(net["nrows"]) > MAX_ROWS * 4:
        raise Unsupported("too many keyring rows for exact closed-loop arithmetic")
    snap = snapper(m)

    toks = [genfw.net_tokens(net), q(float(m.t[0])), q(float(m.dt)), str(len(m.t))]
    # ---- characteristics
    toks.append(str(len(characs)))
    for c in characs:
        toks.append(str(len(c.includes)))
        for inc in c.includes:
            toks += ref(inc)
        if c.denominator is not None:
            toks += ["1"] + ref(c.denominator)
        else:
            toks.append("0")
    # a topological order of ALL characteristics (the implementation orders the dynamic ones; values do not depend on which
    # topological order is used, the model checks that this one is topological)
    order, done = [], set()
    pending = list(range(len(characs)))
    while pending:
        progressed = False
        for k in list(pending):
            c = characs[k]
            need = [kidx[id(x)] for x in c.includes if isinstance(x, M.Characteristic)]
            if isinstance(c.denominator, M.Characteristic):
                need.append(kidx[id(c.denominator)])
            if all(n in done for n in need):
                order.append(k)
                done.add(k)
                pending.remove(k)
                progressed = True
        if not progressed:
            raise Unsupported("cyclic characteristics")
    toks += [str(k) for k in order]
    # ---- parameters
    fw_pars = m.framework.pars
    for p in pars:
        if p.derivative and (p.skip_function or p.pop_aggregation or not p.fcn_str):
            # inside a skip window `Parameter.update` returns before `_dx` is refreshed (the Euler step goes on with a stale rate);
            # an aggregation never sets `_dx`: not modelled (wfSpec refuses both)
            raise Unsupported("derivative parameter with a skip window / aggregation / no function")
        pop = p.pop.name
        cascade = parset.pars[p.name] if p.name in parset.pars else None
        ts = None
        if cascade is not None:
            if getattr(cascade, "_interpolation_method", "linear") != "linear":
                raise Unsupported("interpolation method")
            if cascade.has_values(pop):
                ts = cascade.ts[pop]
        elif p.name not in fw_pars.index:
            # transfer parameter "<transfer>_<src>_to_<dst>"
            found = None
            for tname in parset.transfers:
                for src_pop, tpar in parset.transfers[tname].items():
                    for dst_pop in tpar.ts:
                        if p.name == "%s_%s_to_%s" % (tname, src_pop, dst_pop) and src_pop == pop:
                            found = tpar.ts[dst_pop]
            if found is None:
                raise Unsupported(f"parameter {p.name} has no source of values")
            ts = found
        if ts is not None:
            toks += ["1"] + _ts_tokens(ts, snap)
        else:
            toks.append("0")
        toks.append(q(float(p.scale_factor)))
        if p.limits is None:
            toks += ["-", "-"]
        else:
            toks += [_lim(p.limits[0], -1), _lim(p.limits[1], +1)]
        if p.fcn_str is None:
            toks.append("D")
        elif p.pop_aggregation:
            agg = p.pop_aggregation
            fn, var = agg[0], agg[1]
            inter = agg[2] if len(agg) > 2 else None
            wvar = agg[3] if len(agg) > 3 else None
            src_vars = m._vars_by_pop[var]
            w_vars = m._vars_by_pop[wvar] if wvar else None
            toks += ["A", "1" if fn.endswith("AVG") else "0", str(len(src_vars))]
            for j, sv in enumerate(src_vars):
                if inter is None:
                    toks.append("0")
                else:
                    frm, to = (sv.pop.name, pop) if fn.startswith("SRC") else (pop, sv.pop.name)
                    owner = parset.interactions[inter].get(frm) if frm in parset.interactions[inter] else None
                    if owner is not None and to in owner.pops:
                        sc = Fraction(*float(owner.y_factor[to]).as_integer_ratio()) * Fraction(*float(owner.meta_y_factor).as_integer_ratio())
                        toks += ["1"] + _ts_tokens(owner.ts[to], snap) + [q(sc)]
                    else:
                        toks += ["1"] + _const_ts(0.0) + ["1"]
                toks += ref(sv)
                if w_vars is not None:
                    toks += ["1"] + ref(w_vars[j])
                else:
                    toks.append("0")
        else:
            src = p.fcn_str.replace(":", "___")
            tree = ast.parse(src, mode="eval")
            names = {n.id for n in ast.walk(tree) if isinstance(n, ast.Name)}
            deps = [(name, [ref(v) for v in vs]) for name, vs in p.deps.items()]
            # `dep_vals["t"] = self.t[ti]; dep_vals["dt"] = self.dt` are assigned last, so they win over a variable of that name
            deps = [d for d in deps if d[0] not in ("t", "dt")]
            if "t" in names:
                deps.append(("t", [["t", "0"]]))
            if "dt" in names:
                deps.append(("dt", [["d", "0"]]))
            toks += ["F", str(len(deps))]
            for name, refs in deps:
                toks += [name, str(len(refs))]
                for rf in refs:
                    toks += rf
            out = []
            ser(tree.body, out)
            toks += out
        # skip window of a parameter scenario (closed on both sides; +inf = open end)
        if p.skip_function:
            lo, hi = float(p.skip_function[0]), float(p.skip_function[1])
            if not math.isfinite(lo) or math.isnan(hi) or hi == -math.inf:
                raise Unsupported("skip_function with a non-finite start")
            toks += ["1", q(snap(lo)), "-" if hi == math.inf else q(snap(hi))]
        else:
            toks.append("0")
        toks.append("1" if p.derivative else "0")
    # ---- execution order
    porder = []
    for name in m._exec_order["all_pars"]:
        for p in m._vars_by_pop[name]:
            if isinstance(p, M.Parameter):
                porder.append(pidx[id(p)])
    toks += [str(len(porder))] + [str(x) for x in porder]
    # ---- stocks before the initial flush
    pre = getattr(m, "_verif_preflush", None)
    if not pre:
        raise Unsupported("pre-flush stocks were not captured")
    for rows in pre["stock"]:
        for v in rows:
            if not math.isfinite(v):
                raise Unsupported("non-finite initial stock")
            toks.append(q(v))
    return {"net": net, "tokens": " ".join(toks), "pars": pars, "n_link": n_link}


# ----------------------------------------------------------------------------------------------
# reply parsing and comparison
# ----------------------------------------------------------------------------------------------
def parse_reply(net, rep):
    """-> (entries [(stock rows, flow rows, par values)], stop reason or None) | raises ValueError for err replies"""
    if not rep.startswith("ok"):
        raise ValueError(rep)
    parts = rep.split(" | ")
    n = int(parts[0].split()[1])
    entries, stop = [], None
    for sec in parts[1:]:
        if sec.startswith("nan"):
            stop = sec.split()[1]
            continue
        fields = sec.split(" ; ")
        st, ft = fields[0].split(), fields[1].split()
        pt = fields[2].split() if len(fields) > 2 else []
        stock, k = [], 0
        for nr in net["nrows"]:
            stock.append([unq(x) for x in st[k:k + nr]])
            k += nr
        flows, k = [], 0
        for L in net["lrows"]:
            flows.append([unq(x) for x in ft[k:k + L]])
            k += L
        entries.append((stock, flows, [unq(x) for x in pt]))
    assert len(entries) == n
    return entries, stop


def compare(m, net, entries, stop, upto=None):
    """-> list of dicts {t, kind: 'stock'|'flow', what}; only the FIRST disagreement (later ones follow from it)"""
    from atomica import model as M

    T = len(m.t)
    for ti, (stock, flows, _pv) in enumerate(entries):
        if upto is not None and ti >= upto:
            break
        impl_stock = genfw.snapshot_stock(m, ti)
        impl_fl = genfw.snapshot_flows(m, net, ti)
        people = max(1.0, sum(abs(v) for rows in impl_stock for v in rows if math.isfinite(v)))
        # source inflow is not in the stocks: allow dust relative to the largest flow as well
        people = max(people, max((abs(v) for rows in impl_fl for v in rows if math.isfinite(v)), default=0.0))
        atol = DUST * people
        for c, (mrow, irow) in enumerate(zip(stock, impl_stock)):
            for r, (mv, iv) in enumerate(zip(mrow, irow)):
                if not core.close(mv, iv, scale=0.0, rtol=RTOL, atol=atol):
                    return [{"t": ti, "kind": "stock", "what": f"stock of {net['comps'][c].id} row {r} at index {ti}: model {float(mv)!r} impl {iv!r}"}]
        for l, (mrow, irow) in enumerate(zip(flows, impl_fl)):
            if net["tlink"][l]:
                if len(mrow) != len(irow):
                    return [{"t": ti, "kind": "flow", "what": f"link {net['links'][l].id}: model has {len(mrow)} rows, impl {len(irow)}"}]
                pairs = list(zip(mrow, irow))
            else:
                pairs = [(sum(mrow, Fraction(0)), irow[0])]
            for r, (mv, iv) in enumerate(pairs):
                if not core.close(mv, iv, scale=0.0, rtol=RTOL, atol=atol):
                    return [{"t": ti, "kind": "flow", "what": f"flow of {net['links'][l].id} row {r} at index {ti}: model {float(mv)!r} impl {iv!r}"}]
    return []


def used_par(ex, i):
    p = ex["pars"][i]
    return i < ex["n_link"] or p._is_dynamic or p._precompute or (p.fcn_str is None) or bool(p.skip_function)


def compare_pars(m, ex, entries, upto=None):
    """Values of the parameters the run USES (link-driving, dynamic, precomputed, data): model vs implementation at every index.
    -> first disagreement {t, kind: 'par', what, par} or []"""
    for ti, (_s, _f, pv) in enumerate(entries):
        if upto is not None and ti >= upto:
            break
        stock = genfw.snapshot_stock(m, ti)
        people = max(1.0, sum(abs(v) for rows in stock for v in rows if math.isfinite(v)))
        for i, p in enumerate(ex["pars"]):
            if not used_par(ex, i) or p.vals is None or i >= len(pv):
                continue
            mv, iv = pv[i], float(p.vals[ti])
            if mv is None:
                continue  # model: no value (NaN/inf/not modelled) = no claim
            if not core.close(mv, iv, scale=0.0, rtol=RTOL, atol=1e-10 * people):
                return [{"t": ti, "kind": "par", "par": i, "what": f"parameter {p.id} at index {ti}: model {float(mv)!r} impl {iv!r}" + (f" ({p.fcn_str})" if p.fcn_str else " (databook)")}]
    return []


def impl_nonfinite_at(m, net, ti):
    st = genfw.snapshot_stock(m, min(ti, len(m.t) - 1))
    fl = genfw.snapshot_flows(m, net, min(ti, len(m.t) - 1))
    pv = [float(p.vals[min(ti, len(m.t) - 1)]) for p in net["pars"] if p.vals is not None]
    return any(not math.isfinite(v) for rows in st + fl for v in rows) or any(not math.isfinite(v) for v in pv[:net.get("n_link", len(pv))])


def par_layer_diff(m, ex, entries, ti):
    """link-driving parameter values of index ti: model (csim reply) vs implementation. -> list of (par id, model, impl, units)"""
    out = []
    if ti >= len(entries):
        return out
    pv = entries[ti][2]
    for i in range(ex["n_link"]):
        p = ex["pars"][i]
        iv = float(p.vals[ti])
        mv = pv[i] if i < len(pv) else None
        if not core.close(mv, iv, scale=0.0, rtol=1e-9, atol=1e-13):
            out.append((p.id, None if mv is None else float(mv), iv, ex["net"]["units"][i]))
    return out


def _closure(m, pars):
    """ids of every Parameter and Characteristic the given parameters read, directly or through other parameters / characteristics"""
    from atomica import model as M

    seen, todo = set(), list(pars)
    while todo:
        v = todo.pop()
        if id(v) in seen:
            continue
        seen.add(id(v))
        if isinstance(v, M.Parameter):
            for vs in v.deps.values():
                todo += [x for x in vs if isinstance(x, (M.Parameter, M.Characteristic))]
            if v.pop_aggregation:
                for nm in [v.pop_aggregation[1]] + v.pop_aggregation[3:4]:
                    todo += [x for x in m._vars_by_pop[nm] if isinstance(x, (M.Parameter, M.Characteristic))]
        elif isinstance(v, M.Characteristic):
            todo += [x for x in v.includes if isinstance(x, M.Characteristic)]
            if isinstance(v.denominator, M.Characteristic):
                todo.append(v.denominator)
    return seen


def ambiguity(m, ex, entries, ti, focus=None):
    """Is index `ti` within rounding of a discontinuity of the documented rules?
    * duration conversion: fraction dt/(v*T) for v > 0 but 0 for v <= 0 -- v is dust (|v| < 1e-9) on one side and <= 0 on the other;
    * normalised average (SRC/TGT_POP_AVG): the weights are divided by their sum unless that sum is exactly 0 -- the sum is dust
      (< 1e-9 x the un-weighted interaction weights) in the implementation."""
    if ti < len(entries):
        pv = entries[ti][2]
        for i in range(ex["n_link"]):
            if ex["net"]["units"][i] != "d":
                continue
            iv = float(ex["pars"][i].vals[ti])
            mv = pv[i] if i < len(pv) else None
            if mv is None or not math.isfinite(iv):
                continue
            if (float(mv) <= 0) != (iv <= 0) and abs(float(mv)) < 1e-9 and abs(iv) < 1e-9:
                return "duration_zero"
    # ratio characteristic: quotient for a denominator > 0, but 0 (or inf) for a denominator <= 0.  People left in a drained
    # compartment are dust in one arithmetic and exactly 0 (or a different dust) in the other: 1e-27/1e-23 vs 0/0 -> 0
    cidx = {id(c): k for k, c in enumerate(ex["net"]["comps"])}
    mstock = entries[ti][0] if ti < len(entries) else None
    # only discontinuities that the disagreeing parameters (`focus`: indices; None = the link-driving ones) can see
    reach = _closure(m, [ex["pars"][i] for i in (focus if focus is not None else range(ex["n_link"]))])

    def impl_comp(c):
        return float(c.vals[ti])

    def model_comp(c):
        return float(sum(mstock[cidx[id(c)]], Fraction(0)))

    for pop in m.pops:
        for c in pop.characs:
            if c.denominator is None or id(c) not in reach:
                continue
            den_i = _charac_value(c.denominator, ti, impl_comp)
            num_i = sum(_charac_value(x, ti, impl_comp) for x in c.includes)
            den_m = _charac_value(c.denominator, ti, model_comp) if mstock is not None else den_i
            if abs(den_i) < 1e-9 and abs(den_m) < 1e-9 and not (den_i == 0 and den_m == 0):
                return "ratio_zero_denominator"
            if den_i <= 0 and abs(num_i - 1e-6) < 1e-12:
                return "ratio_zero_denominator"
            # a characteristic that no dynamic parameter reads is never updated during the run: whoever reads it afterwards (postcompute parameters, results)
            # gets the REPORTED form, 0 for a numerator below 1e-6 whatever the denominator (C07's text); the model evaluates every parameter with the
            # in-run form numerator/denominator.  Outside the model's scope (C06's oracle accepts either form there): no claim
            if not getattr(c, "_is_dynamic", False) and den_i > 0 and 0 < num_i < 1e-6:
                return "ratio_reported_form"
    for p in ex["pars"]:
        agg = p.pop_aggregation
        if not agg or not agg[0].endswith("AVG") or len(agg) < 4 or id(p) not in reach:
            continue
        inter = m.interactions[agg[2]][:, :, ti]
        w = inter.T if agg[0].startswith("SRC") else inter
        wv = np.array([float(v[ti]) for v in m._vars_by_pop[agg[3]]])
        i = [q_.pop.name for q_ in m._vars_by_pop[p.name]].index(p.pop.name)
        norm = float(np.sum(w[i] * wv))
        ref = float(np.sum(np.abs(w[i]))) * max(1.0, float(np.max(np.abs(wv), initial=0.0)))
        if norm != 0.0 and abs(norm) < 1e-9 * max(ref, 1e-300) and ref > 0:
            return "average_zero_weight"
    return None


def l1_trajectory(m, net):
    """The L1 path: eflush + estep chained on the MODEL's own states, fed with the IMPLEMENTATION's parameter values.
    -> (entries [(stock, flows)], stop)"""
    nt = genfw.net_tokens(net)
    pre = m._verif_preflush
    pvpre = [pre["pv"].get(p.id, 0.0) for p in net["pars"]]
    pvpre = [0.0 if not math.isfinite(v) else v for v in pvpre]
    stock = [[Fraction(*float(v).as_integer_ratio()) for v in rows] for rows in pre["stock"]]
    rep = core.drive([f"eflush {nt} " + " ".join(q(v) for v in pvpre) + " " + " ".join(q(v) for rows in stock for v in rows)])[0]
    if not rep.startswith("ok"):
        return [], "flush"
    st = rep[3:].split()
    stock, k = [], 0
    for nr in net["nrows"]:
        stock.append([unq(x) for x in st[k:k + nr]])
        k += nr
    entries = []
    for ti in range(len(m.t)):
        pv = [float(p.vals[ti]) if p.vals is not None else 0.0 for p in net["pars"]]
        if any(not math.isfinite(pv[i]) for i in range(net.get("n_link", len(pv)))):
            return entries, "par"
        pv = [v if math.isfinite(v) else 0.0 for v in pv]
        rep = core.drive([f"estep {nt} {q(m.dt)} " + " ".join(q(v) for v in pv) + " " + " ".join(q(v) for rows in stock for v in rows)])[0]
        parsed = engine_corr.parse_step_reply(net, rep)
        if isinstance(parsed, str):
            return entries, "step"
        fl, nxt = parsed
        entries.append((stock, fl, []))
        stock = nxt
    return entries, None


def same_traj(a, b, tol=Fraction(1, 10**9)):
    """first index where two exact trajectories differ (relative tol), or None"""
    for ti, (ea, eb) in enumerate(zip(a, b)):
        for xa, xb in zip(ea[0] + ea[1], eb[0] + eb[1]):
            for va, vb in zip(xa, xb):
                if abs(va - vb) > tol * max(1, abs(va), abs(vb)):
                    return ti
    return None


# ----------------------------------------------------------------------------------------------
# the check
# ----------------------------------------------------------------------------------------------
def features_of(m, ex, spec):
    tags = set()
    from atomica import model as M

    for p in ex["pars"]:
        if p.fcn_str and not p.pop_aggregation:
            kinds = {type(v).__name__ for vs in p.deps.values() for v in vs}
            if kinds & {"Compartment", "TimedCompartment", "JunctionCompartment", "SinkCompartment"}:
                tags.add("fn.of_compartment")
            if "Characteristic" in kinds:
                tags.add("fn.of_characteristic")
                if any(isinstance(v, M.Characteristic) and v.denominator is not None for vs in p.deps.values() for v in vs):
                    tags.add("fn.of_ratio_characteristic")
            if "Parameter" in kinds:
                tags.add("fn.of_parameter")
            if any(isinstance(v, M.Link) for vs in p.deps.values() for v in vs):
                tags.add("fn.of_flow_output_only")
            if "t" in p.fcn_str.replace("t0", "").replace("alive", ""):
                pass
            if p._precompute:
                tags.add("fn.precompute")
            if p._is_dynamic:
                tags.add("fn.dynamic")
            if not p._precompute and not p._is_dynamic:
                tags.add("fn.postcompute")
            if p.limits is not None:
                tags.add("fn.limits")
        if p.pop_aggregation:
            tags.add("agg." + p.pop_aggregation[0] + (".weighted" if len(p.pop_aggregation) > 3 else "") + (".interaction" if len(p.pop_aggregation) > 2 else ""))
        if p.scale_factor != 1.0:
            tags.add("par.scaled")
        if p.fcn_str is None and p.limits is not None:
            tags.add("data.limits")
        if p.timescale not in (1.0, None) and isinstance(p.timescale, float) and math.isfinite(p.timescale):
            tags.add("par.timescale")
        if len(p.links) > 1:
            tags.add("par.several_links")
        if p.fcn_str is None and p.vals is not None and len(set(np.asarray(p.vals, dtype=float).tolist())) > 1:
            tags.add("data.timevarying")
    if len({pop.type for pop in m.pops}) > 1:
        tags.add("types.two")
        tof = {pop.name: pop.type for pop in m.pops}
        for p in ex["pars"]:
            if p.pop_aggregation:
                src = m._vars_by_pop[p.pop_aggregation[1]]
                if any(tof[v.pop.name] != tof[p.pop.name] for v in src):
                    tags.add("types.cross_aggregation" + (".interaction" if len(p.pop_aggregation) > 2 else "") + (".weighted" if len(p.pop_aggregation) > 3 else ""))
                    tags.add("types.cross." + p.pop_aggregation[0])
                    if any(q_.links and any(v is p for vs in q_.deps.values() for v in vs) for q_ in ex["pars"]):
                        tags.add("types.cross_aggregation.drives_link")
        if len({len([1 for pop in m.pops if pop.type == t]) for t in set(tof.values())}) > 1:
            tags.add("types.different_population_counts")
    for p in ex["pars"]:
        if p.derivative:
            tags.add("deriv.any")
            if p.links:
                tags.add("deriv.drives_link")
            if any(v is p for vs in p.deps.values() for v in vs):
                tags.add("deriv.self_reference")
            if any(not isinstance(v, M.Parameter) for vs in p.deps.values() for v in vs):
                tags.add("deriv.state_dependent")
            try:
                c = float(ast.literal_eval(p.fcn_str.strip()))
                tags.add("deriv.zero_rate" if c == 0 else "deriv.constant_rate")
            except Exception:
                pass
            if p.limits is not None and p.vals is not None and any(float(x) in (float(p.limits[0]), float(p.limits[1])) for x in p.vals[1:]):
                tags.add("deriv.limit_reached")
            if p.scale_factor != 1.0:
                tags.add("deriv.scaled")
            readers = [q_ for q_ in ex["pars"] if q_ is not p and any(v is p for vs in q_.deps.values() for v in vs)]
            if any(q_.links for q_ in readers):
                tags.add("deriv.read_by_link_parameter")
            if any(q_.fcn_str and not q_._is_dynamic and not q_._precompute for q_ in readers):
                tags.add("deriv.read_by_output_only")
            if p.vals is not None and len(set(np.asarray(p.vals, dtype=float).tolist())) > 1:
                tags.add("deriv.moves")
    if spec.get("scenarios"):
        grid = {float(t) for t in m.t}
        by_group = {}
        for e in spec["scenarios"]:
            t0 = float(min(e["t"]))
            tags.add("scen.first_year." + ("before_run" if t0 < float(m.t[0]) else "first_point" if t0 == float(m.t[0]) else "last_point" if t0 == float(m.t[-1]) else "on_grid" if t0 in grid else "off_grid"))
            tags.add("scen.interp." + e.get("interp", "linear"))
            if e.get("hi") is not None:
                tags.add("scen.window_closed." + ("on_grid" if float(e["hi"]) in grid else "off_grid"))
            by_group.setdefault(e.get("group"), set()).add(e["pop"])
        if any(len(v) > 1 for v in by_group.values()):
            tags.add("scen.several_pops")
        for p in ex["pars"]:
            if p.skip_function:
                tags.add("scen.par." + ("aggregation" if p.pop_aggregation else "dynamic" if p._is_dynamic else "precompute" if p._precompute else "output_only"))
                if p.links:
                    tags.add("scen.par.drives_link")
                if m._verif_parset.pars[p.name].has_values(p.pop.name) and any(q_.name == p.name and q_.get("databook") for q_ in [type("P", (), {"name": x["name"], "get": x.get})() for x in spec["pars"]]):
                    tags.add("scen.par.had_databook_values")
    for grp, tag in ((spec.get("interactions") or [], "interaction.timevarying"), (spec.get("transfers") or [], "transfer.timevarying")):
        if any(isinstance(pr[2], dict) for g in grp for pr in g["pairs"]):
            tags.add(tag)
    for u in set(ex["net"]["units"][:ex["n_link"]]):
        tags.add("units." + {"f": "fraction", "d": "duration", "n": "number", "p": "proportion"}[u])
    pairs = {}
    for l in ex["net"]["links"]:
        if l.parameter is not None:
            pairs.setdefault((id(l.source), id(l.dest)), set()).add(id(l.parameter))
    if any(len(v) > 1 for v in pairs.values()):
        tags.add("link.several_parameters")
    return tags | engine_corr.nontrivial_features(m, ex["net"])


def check_one(ctx, prop, spec, m, key):
    """Run the closed-loop correspondence on one processed model. Returns 'ok' | 'unsupported' | 'break' | 'violation'."""
    try:
        ex = extract(m)
    except Unsupported as e:
        ctx.count("closed.unsupported")
        ctx.count("closed.unsupported." + str(e).split()[0])
        return "unsupported"
    net = ex["net"]
    net["n_link"] = ex["n_link"]
    if window_ambiguous(m):
        ctx.ambiguous += 1
        ctx.count("closed.ambiguous.grid_vs_window")
        return "ok"
    rep = core.drive([csim_req(ex["tokens"])], timeout=900)[0]
    tags = features_of(m, ex, spec)
    for tg in tags:
        ctx.count(tg)
    ctx.case(key, nontrivial=any(t.startswith(("scen.", "deriv.", "types.cross")) for t in tags) or bool(tags & {"fn.dynamic", "fn.of_parameter", "fn.of_characteristic", "agg.SRC_POP_AVG", "agg.TGT_POP_AVG", "agg.SRC_POP_SUM", "agg.TGT_POP_SUM", "has.transfer", "data.timevarying", "data.limits", "par.scaled"} or any(t.startswith("agg.") for t in tags)),
             sample={"case": key, "kinds": "".join(net["kinds"]), "n_links": len(net["links"]), "n_pars": len(ex["pars"]), "npts": len(m.t), "tags": sorted(tags)})
    ctx.hyp_checked += 1
    if rep.startswith("err"):
        wf = core.drive(["cwf " + ex["tokens"]])[0]
        ctx.brk("correspondence", f"closed-loop spec extracted from a built Model fails the model's well-formedness check ({rep}; {wf})", stage="closed-wf", case=key, spec=spec)
        return "break"
    ctx.hyp_held += 1
    # hypothesis of closed_total / closed_nonneg (junction proportions clipped at 0): decided by the driver, counted
    wfrep = core.drive(["cwf " + ex["tokens"]])[0]
    ctx.count("closed.hyp.propsClipped." + ("held" if "props=true" in wfrep else "not_held"))
    # hypotheses of the argument "evaluating every function parameter at every index = the code's precompute/dynamic/postcompute
    # schedule": (1) precomputed parameters read only t, dt and data/precomputed parameters (evalPars_static applies);
    # (2) nothing that is used (link-driving, dynamic, precomputed, aggregated) reads a postcomputed parameter or a link flow
    from atomica import model as M
    post = {id(p) for p in ex["pars"] if p.fcn_str and not p._is_dynamic and not p._precompute}
    ok_static = ok_post = True
    for i, p in enumerate(ex["pars"]):
        deps = [v for vs in p.deps.values() for v in vs]
        if p.pop_aggregation:
            deps += [v for nm in [p.pop_aggregation[1]] + p.pop_aggregation[3:4] for v in m._vars_by_pop[nm]]
        if p._precompute and not all(isinstance(v, M.Parameter) and not v._is_dynamic and (v.fcn_str is None or v._precompute) for v in deps):
            ok_static = False
        used = i < ex["n_link"] or p._is_dynamic or p._precompute
        if used and any(id(v) in post or isinstance(v, M.Link) for v in deps):
            ok_post = False
    ctx.hyp_checked += 2
    ctx.hyp_held += int(ok_static) + int(ok_post)
    if not (ok_static and ok_post):
        ctx.brk("correspondence", f"the implementation's evaluation schedule is not covered by the closed-loop argument (static precompute set: {ok_static}; postcomputed parameters unread: {ok_post})", stage="closed-schedule", case=key, spec=spec)
        return "break"
    entries, stop = parse_reply(net, rep)
    T = len(m.t)
    ctx.count("closed.compared_models")
    ctx.count("closed.compared_indices", len(entries))
    upto = None
    if stop is not None:
        ctx.count("closed.model_undefined." + stop)
        ti = len(entries)
        if stop != "big" and not impl_nonfinite_at(m, net, ti):
            if stop == "step":
                ctx.brk("correspondence", f"closed-loop model step undefined (0/0 at a junction) at index {ti} but the implementation is finite there", stage="closed-nan", case=key, spec=spec)
                return "break"
            ctx.count("closed.model_undefined_impl_finite")
    diffs = compare(m, net, entries, stop, upto)
    ctx.traces += 1
    if not diffs:
        # stocks and flows agree everywhere; the parameter values the run used must agree too (C06: the values of a run follow
        # the documented rules) -- they may differ without moving anybody, e.g. in an empty population
        diffs = compare_pars(m, ex, entries)
        ctx.count("closed.compared_parameter_values", sum(1 for i in range(len(ex["pars"])) if used_par(ex, i)) * len(entries))
    if not diffs:
        return "ok"
    d = diffs[0]
    ctx.disagreements_checked += 1
    ti = d["t"]
    # which layer?  stocks at index ti come from the flows of ti-1 (which agreed) unless ti == 0 (flush);
    # flows at ti come from the parameter values of ti and the (agreeing) stocks of ti
    pdiff = par_layer_diff(m, ex, entries, ti) if d["kind"] == "flow" else []
    # the two discontinuities of the rules themselves: a value that is floating-point dust in the implementation and exactly 0 in
    # exact arithmetic lands on different sides; that is not a disagreement about the rule (counted as ambiguous, not compared on)
    amb = ambiguity(m, ex, entries, ti, focus=[d["par"]] if d["kind"] == "par" else None)
    if amb:
        ctx.ambiguous += 1
        ctx.count("closed.ambiguous." + amb)
        return "ok"
    layer = "parameter values" if (pdiff or d["kind"] == "par") else ("initial flush" if (ti == 0 and d["kind"] == "stock") else "flows/update")
    what = f"closed loop, {layer}: {d['what']}" + (f"; parameter {pdiff[0][0]} model {pdiff[0][1]!r} impl {pdiff[0][2]!r}" if pdiff else "")
    ors, illposed = engine_corr.oracles(m, net)
    mine = [o for o in ors if o[0] == prop and not (illposed and o[1].get("oracle") == "finite")]
    # parameter-layer oracle: the documented aggregation rule (C03/C06)
    n_before = len(ctx.violations)
    try:
        from . import agg_corr
        agg_corr.check(ctx, [prop], spec, m, m._verif_parset, key)
    except Exception as e:
        ctx.notes.append("agg_corr: " + repr(e)[:200])
    for v in par_oracle(m, ex):
        ctx.violation({"api": "Model.update_pars", **v[0]}, v[1], {"spec": spec, "case": key, "how": "vlib.genfw.run(spec); vlib.closed_corr.par_oracle"})
    for v in prefix_oracle(spec, m):
        ctx.violation({"api": "ParameterScenario.get_parset", **v[0]}, v[1], {"spec": spec, "case": key, "how": "vlib.genfw.run(spec) with and without spec['scenarios']; vlib.closed_corr.prefix_oracle"})
    for (_p, okey, owhat) in mine:
        ctx.violation({"api": "Model.process", **okey}, owhat, {"spec": spec, "case": key, "how": "vlib.genfw.run(spec) then vlib.engine_corr.oracles"})
    if len(ctx.violations) > n_before:
        return "violation"
    ctx.brk("correspondence", what, stage="closed-" + ("pars" if (pdiff or d["kind"] == "par") else "flows"), case=key, spec=spec)
    return "break"


def par_oracle(m, ex):
    """Direct oracle on the implementation's parameter arrays (the property's rule, in floating point):
    every link-driving parameter lies within its limits at every index, and a function parameter that is not an aggregation
    equals clip(scale * f(dependency values of the same index)) when re-evaluated from the implementation's own arrays."""
    out = []
    from atomica import model as M

    T = len(m.t)
    for i, p in enumerate(ex["pars"]):
        if p.vals is None:
            continue
        v = np.asarray(p.vals, dtype=float)
        used = i < ex["n_link"] or p._is_dynamic or p._precompute or bool(p.skip_function)
        if not used:
            continue
        if p.limits is not None and p.limits[0] <= p.limits[1] and np.isfinite(v).all():  # min > max leaves no admissible value: no claim from the direct oracle (clip order is compared through the model)
            if (v < p.limits[0] - 1e-12).any() or (v > p.limits[1] + 1e-12).any():
                t = int(np.argmax((v < p.limits[0] - 1e-12) | (v > p.limits[1] + 1e-12)))
                out.append(({"oracle": "limits"}, f"parameter {p.id} = {v[t]!r} at index {t} is outside its limits {p.limits}"))
                continue
        if p.skip_function and p.fcn_str:
            # inside the window the function / aggregation is not evaluated: the (pre-interpolated) scenario series stands
            parset = m._verif_parset
            cp = parset.pars[p.name]
            e = cp.interpolate(np.asarray(m.t), p.pop.name) * cp.y_factor[p.pop.name] * cp.meta_y_factor
            if p.limits is not None:
                e = np.clip(e, p.limits[0], p.limits[1])
            tt = np.asarray(m.t, dtype=float)
            inside = (tt >= p.skip_function[0]) & (tt <= p.skip_function[1])
            bad = inside & ~(np.isfinite(e) & np.isfinite(v) & (np.abs(e - v) <= 1e-9 * np.maximum(1.0, np.abs(e))))
            if bad.any():
                t = int(np.argmax(bad))
                out.append(({"oracle": "skip-window-value"}, f"parameter {p.id} at index {t} (t={tt[t]!r}) lies inside its skip window {tuple(p.skip_function)} but holds {v[t]!r} instead of the scenario value clip(interp*y_factor*meta) = {e[t]!r} ({p.fcn_str})"))
                continue
        if p.derivative and p.fcn_str and p._fcn is not None:
            bad = derivative_oracle(m, p, v)
            if bad:
                out.append(bad)
            continue
        if p.fcn_str and not p.pop_aggregation and p._fcn is not None and not p.derivative:
            for ti in range(T):
                if p.skip_function and p.skip_function[0] <= float(m.t[ti]) <= p.skip_function[1]:
                    continue
                dep_vals = {}
                ok = True
                for name, deps in p.deps.items():
                    s = 0.0
                    for dep in deps:
                        if isinstance(dep, M.Link):
                            ok = False
                        elif isinstance(dep, M.Characteristic):
                            # recompute from compartments with the update rule
                            s += _charac_value(dep, ti)
                        else:
                            s += float(dep.vals[ti])
                    dep_vals[name] = s
                if not ok:
                    break
                dep_vals["t"] = m.t[ti]
                dep_vals["dt"] = m.dt
                try:
                    with np.errstate(all="ignore"):
                        e = float(p.scale_factor * p._fcn(**dep_vals))
                except Exception:
                    break
                if p.limits is not None:
                    e = min(max(e, p.limits[0]), p.limits[1])
                if math.isfinite(e) and math.isfinite(v[ti]) and abs(e - v[ti]) > 1e-9 * max(1.0, abs(e)):
                    out.append(({"oracle": "function-value"}, f"parameter {p.id} at index {ti}: stored {v[ti]!r}, but clip(scale*f(dependencies at that index)) = {e!r} ({p.fcn_str})"))
                    break
        elif p.fcn_str is None:
            # data parameter: interpolated databook value x y_factor x meta_y_factor, clipped to the limits
            parset = m._verif_parset
            if p.name in parset.pars and parset.pars[p.name].has_values(p.pop.name):
                cp = parset.pars[p.name]
                e = cp.interpolate(np.asarray(m.t), p.pop.name) * cp.y_factor[p.pop.name] * cp.meta_y_factor
                if p.limits is not None:
                    e = np.clip(e, p.limits[0], p.limits[1])
                bad = np.isfinite(e) & np.isfinite(v) & (np.abs(e - v) > 1e-9 * np.maximum(1.0, np.abs(e)))
                if bad.any():
                    t = int(np.argmax(bad))
                    out.append(({"oracle": "data-value"}, f"data parameter {p.id} at index {t}: stored {v[t]!r}, but clip(interpolated databook value * y_factor * meta_y_factor) = {e[t]!r}"))
    return out


def _dep_vals(m, p, ti):
    """the values `Parameter.update(ti)` hands to the parsed function, recomputed from the implementation's own arrays; None when a
    link flow is read"""
    from atomica import model as M

    dep_vals = {}
    for name, deps in p.deps.items():
        s = 0.0
        for dep in deps:
            if isinstance(dep, M.Link):
                return None
            elif isinstance(dep, M.Characteristic):
                s += _charac_value(dep, ti)
            else:
                s += float(dep.vals[ti])
        dep_vals[name] = s
    dep_vals["t"] = m.t[ti]
    dep_vals["dt"] = m.dt
    return dep_vals


def derivative_oracle(m, p, v):
    """A derivative parameter follows the documented recurrence: the value of index 0 is the (scaled, clipped) databook value and
    value[i+1] = clip(value[i] + scale * f(values of index i) * dt); a literal rate c without limits gives the straight line
    value[k] = v0 + k*c*scale*dt, a zero rate a constant (closed_derivative_linear / _constant evaluated on the implementation)."""
    T = len(m.t)
    lo, hi = (p.limits if p.limits is not None else (-math.inf, math.inf))
    clip = lambda e: min(max(e, lo), hi)
    parset = m._verif_parset
    cp = parset.pars[p.name]
    if cp.has_values(p.pop.name):
        e0 = clip(float(cp.interpolate(np.asarray(m.t[:1]), p.pop.name)[0] * cp.y_factor[p.pop.name] * cp.meta_y_factor))
        if math.isfinite(e0) and not (math.isfinite(v[0]) and abs(e0 - v[0]) <= 1e-9 * max(1.0, abs(e0))):
            return ({"oracle": "derivative-initial"}, f"derivative parameter {p.id} starts at {v[0]!r}, but clip(databook value at the first time point * y_factor * meta) = {e0!r}")
    for ti in range(T - 1):
        dv = _dep_vals(m, p, ti)
        if dv is None:
            return None
        try:
            with np.errstate(all="ignore"):
                f = float(p.scale_factor * p._fcn(**dv))
        except Exception:
            return None
        e = clip(float(v[ti]) + f * m.dt)
        if math.isfinite(e) and math.isfinite(v[ti + 1]) and abs(e - v[ti + 1]) > 1e-9 * max(1.0, abs(e), abs(f * m.dt)):
            return ({"oracle": "derivative-step"}, f"derivative parameter {p.id}: value[{ti + 1}] = {v[ti + 1]!r}, but clip(value[{ti}] + scale*f(values of index {ti})*dt) = clip({v[ti]!r} + {f!r}*{m.dt!r}) = {e!r} ({p.fcn_str})")
    try:
        c = float(ast.literal_eval(p.fcn_str.strip()))
    except Exception:
        return None
    if p.limits is None and math.isfinite(v[0]):
        for k in range(T):
            e = float(v[0]) + k * c * p.scale_factor * m.dt
            if not (math.isfinite(v[k]) and abs(e - v[k]) <= 1e-9 * max(1.0, abs(e))):
                return ({"oracle": "derivative-linear"}, f"derivative parameter {p.id} with the constant rate {c!r} and no limits: value[{k}] = {v[k]!r}, expected v0 + k*c*scale*dt = {e!r}")
    return None


def scenario_start(spec):
    """the first year at which any scenario of the spec may act"""
    return min(min(float(t) for t in e["t"]) for e in spec["scenarios"])


def prefix_oracle(spec, m):
    """C09 on the implementation alone: the run WITHOUT the scenarios (same spec, "scenarios" removed) has, at every time point strictly
    before the first scenario year, exactly the stocks, flows and parameter values of the run with them.  -> list of (key, what)"""
    if not spec.get("scenarios"):
        return []
    base_spec = {k: v for k, v in spec.items() if k != "scenarios"}
    try:
        mb = genfw.run(base_spec, capture_preflush=True)
    except Exception as e:  # the baseline itself is refused: nothing to compare with
        return []
    y = scenario_start(spec)
    netb = genfw.extract_net(mb)
    nets = genfw.extract_net(m)
    out = []
    for ti in range(len(m.t)):
        if not float(m.t[ti]) < y:
            break
        a = genfw.snapshot_stock(m, ti) + genfw.snapshot_flows(m, nets, ti)
        b = genfw.snapshot_stock(mb, ti) + genfw.snapshot_flows(mb, netb, ti)
        for k, (ra, rb) in enumerate(zip(a, b)):
            for va, vb in zip(ra, rb):
                if not (va == vb or (math.isnan(va) and math.isnan(vb)) or abs(va - vb) <= 1e-12 * max(1.0, abs(va), abs(vb))):
                    out.append(({"oracle": "no_effect_before_scenario"}, f"stock/flow #{k} at index {ti} (t={float(m.t[ti])!r} < first scenario year {y!r}): {va!r} with the scenario, {vb!r} without"))
                    return out
        for pop, popb in zip(m.pops, mb.pops):
            for p, pb in zip(pop.pars, popb.pars):
                if p.vals is None or pb.vals is None:
                    continue
                va, vb = float(p.vals[ti]), float(pb.vals[ti])
                if not (va == vb or (math.isnan(va) and math.isnan(vb)) or abs(va - vb) <= 1e-12 * max(1.0, abs(va), abs(vb))):
                    out.append(({"oracle": "no_effect_before_scenario"}, f"parameter {p.id} at index {ti} (t={float(m.t[ti])!r} < first scenario year {y!r}): {va!r} with the scenario, {vb!r} without"))
                    return out
    return out


def _charac_value(c, ti, comp_value=None):
    """`Characteristic.update` recomputed from compartment sizes (`comp_value(comp)`, default: the implementation's arrays);
    also accepts a compartment"""
    from atomica import model as M

    if comp_value is None:
        comp_value = lambda comp: float(comp.vals[ti])
    if not isinstance(c, M.Characteristic):
        return comp_value(c)
    s = 0.0
    for inc in c.includes:
        s += _charac_value(inc, ti, comp_value)
    if c.denominator is not None:
        d = _charac_value(c.denominator, ti, comp_value)
        if d > 0:
            s /= d
        elif s < 1e-6:
            s = 0.0
        else:
            s = math.inf
    return s


def _worker(sub, n, prop=None, regimes=None, force=()):
    import logging
    import atomica
    atomica.logger.setLevel(logging.ERROR)
    _run(sub, prop, n, regimes, force)


def _run(ctx, prop, n_models, regimes, force=()):
    for i in range(n_models):
        regime = regimes[i % len(regimes)]
        sub_seed = ctx.rng.randrange(1 << 30)
        rr = _random.Random(sub_seed)

        def on_reject(spec_, exc, _seed=sub_seed, _regime=regime):
            ctx.count("closed.gen_rejected." + type(exc).__name__)
            v = typed_crash_oracle(spec_, exc)
            if v:
                ctx.violation({"api": "Model.build", **v[0]}, v[1], {"spec": spec_, "case": {"closed": True, "sub_seed": _seed, "regime": _regime}, "how": "vlib.genfw.run(spec)"})

        try:
            spec, m = gen_model(rr, regime, on_reject, force)
        except RuntimeError as e:
            ctx.notes.append(str(e)[:200])
            ctx.count("closed.gen_failed")
            continue
        key = {"closed": True, "sub_seed": sub_seed, "regime": regime}
        if force:
            key["force"] = list(force)
        ctx.count("closed.regime." + regime)
        try:
            check_one(ctx, prop, spec, m, key)
        except core.DriverError as e:
            ctx.brk("correspondence", f"driver failed on a closed-loop request: {str(e)[:200]}", stage="closed-driver", case=key, spec=spec)


def run_closed(ctx, prop, n_models, regimes=("calibrated", "boundary", "calibrated", "extreme"), workers=None, force=()):
    """Generate `n_models` small models and compare whole trajectories with the closed-loop Lean model."""
    if workers is None:
        workers = 12 if n_models >= 48 else 1
    if workers > 1:
        core.parallel(ctx, _worker, n_models, workers, prop=prop, regimes=regimes, force=tuple(force))
    else:
        _run(ctx, prop, n_models, regimes, tuple(force))


def replay_case(case, verbose=True):
    """Rebuild the model of a recorded case key ({'sub_seed', 'regime'}) and print the comparison."""
    rr = _random.Random(case["sub_seed"])
    crashed = []

    def on_reject(spec_, exc):
        v = typed_crash_oracle(spec_, exc)
        if v:
            crashed.append(v[1])

    spec, m = gen_model(rr, case["regime"], on_reject, tuple(case.get("force") or ()))
    if crashed:
        print("a candidate of this case was refused:", crashed[0])
        return 1
    ex = extract(m)
    net = ex["net"]
    net["n_link"] = ex["n_link"]
    if window_ambiguous(m):
        print("float grid and exact grid fall on different sides of a skip-window bound: no claim")
        return 0
    rep = core.drive([csim_req(ex["tokens"])], timeout=900)[0]
    if rep.startswith("err"):
        print("driver:", rep, core.drive(["cwf " + ex["tokens"]])[0])
        return 1
    entries, stop = parse_reply(net, rep)
    diffs = compare(m, net, entries, stop) or compare_pars(m, ex, entries)
    if not diffs:
        # the direct oracles of the case as well (a violation may have been found by an oracle while a neighbour disagreed)
        bad = par_oracle(m, ex) + prefix_oracle(spec, m)
        if bad:
            print("direct oracle fails:", bad[0][1])
            return 1
    amb = ambiguity(m, ex, entries, diffs[0]["t"], focus=[diffs[0]["par"]] if diffs[0]["kind"] == "par" else None) if diffs else None
    if amb:
        print("first disagreement is within rounding of a discontinuity of the rule (ambiguous):", amb, diffs[0]["what"])
        return 0
    if verbose:
        print(f"indices computed by the model: {len(entries)} of {len(m.t)}; stop={stop}; first disagreement: {diffs[0]['what'] if diffs else None}")
        if diffs:
            print("parameter layer at that index:", par_layer_diff(m, ex, entries, diffs[0]["t"]))
            print("oracles:", engine_corr.oracles(m, net)[0], par_oracle(m, ex))
    return 1 if diffs else 0


# ----------------------------------------------------------------------------------------------
# self-checks of the driver paths
# ----------------------------------------------------------------------------------------------
def closed_selfcheck(ctx, n=3):
    """(a) memoised `csim` vs the reference path `csimref` (= `Closed.simulate` verbatim) on tiny models;
       (b) `csim` vs the L1 path (eflush/estep chained, fed with the implementation's parameter values): a difference there
           is in the parameter layer, not in the flow layer (both run the same `Engine.step`)."""
    done_ref = done_l1 = 0
    seen = set()
    for i in range(60):
        if done_ref >= n and done_l1 >= n and seen >= {"derivative", "skip"}:
            break
        rr = _random.Random(ctx.seed * 104729 + i)
        feats = {"n_norm": 2, "npops": 1, "nsteps": 2, "junctions": rr.choice([0, 1]), "timed": 0, "sinks": 1, "functions": True, "aggregation": False, "transfers": False, "source": False, "dt": 0.5}
        try:
            spec = genfw.random_spec(rr, "calibrated", feats)
            spec = enrich(spec, rr)
            if i % 2 == 1:
                # the extended paths of the memoised driver loop (pair fold with the Euler steps, skip windows) against `simulate` verbatim
                spec = enrich_derivative(spec, rr)
                spec = enrich_scenarios(spec, rr)
            m = genfw.run(spec, capture_preflush=True)
            ex = extract(m)
        except Exception:
            continue
        net = ex["net"]
        net["n_link"] = ex["n_link"]
        if len(net["links"]) > 8:
            continue
        a = core.drive([csim_req(ex["tokens"])])[0]
        if not a.startswith("ok"):
            continue
        entries, stop = parse_reply(net, a)
        has = {"derivative"} if any(p.derivative for p in ex["pars"]) else set()
        has |= {"skip"} if any(p.skip_function for p in ex["pars"]) else set()
        if (done_ref < n or (has - seen)) and stop is None:
            # reference path on the first two indices only (exponential without memoisation)
            toks = ex["tokens"].split(" ")
            short = _with_npts(ex, net, 2)
            a2 = core.drive([csim_req(short)])[0]
            b2 = core.drive(["csimref " + short], timeout=900)[0]
            strip = lambda rep: " | ".join(" ; ".join(sec.split(" ; ")[:2]) for sec in rep.split(" | "))
            if strip(a2) != b2:
                ctx.brk("correspondence", "driver self-check: memoised csim differs from Closed.simulate (csimref)", stage="closed-driver")
            done_ref += 1
            seen |= has
            if any(p.derivative for p in ex["pars"]):
                ctx.count("closed.selfcheck_ref.derivative")
            if any(p.skip_function for p in ex["pars"]):
                ctx.count("closed.selfcheck_ref.skip_window")
        if done_l1 < n:
            l1, l1stop = l1_trajectory(m, net)
            k = same_traj(entries, l1)
            if k is not None and not par_layer_diff(m, ex, entries, k):
                ctx.brk("correspondence", f"driver self-check: csim and the L1 path (same Engine.step, implementation's parameter values) differ at index {k} although the parameter values agree", stage="closed-driver")
            done_l1 += 1
    ctx.extra["closed_selfcheck_ref"] = done_ref
    ctx.extra["closed_selfcheck_l1"] = done_l1


def _with_npts(ex, net, npts):
    """the same request with a shorter horizon (the spec tokens carry npts right after the net, start and dt)"""
    nt = genfw.net_tokens(net)
    rest = ex["tokens"][len(nt) + 1:].split(" ")
    rest[2] = str(npts)
    return nt + " " + " ".join(rest)
