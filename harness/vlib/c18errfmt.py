"""
vlib.c18errfmt -- translator `errors_fmt` (property C18).

Every string-formatting expression in the input-reading modules of atomica becomes one row of a Lean table

    (file, line, exception class | "message" | "assert", kind, placeholders, supplied, parenthesised)

kind = "percent":  `"...%s..." % args`   placeholders = conversion specifiers, supplied = len(args) if a tuple else 1;
                   parenthesised = False for the mis-parenthesised call `X("..%s..%s" % a, b)` (the tuple was split into call arguments)
kind = "format":   `"...{}...".format(args)`  placeholders = positional fields needed, supplied = positional arguments given

f-strings cannot be mis-counted and are not rows.  Formatting whose right-hand side is a single name that may hold a tuple is
counted as `unknown` (listed in the evidence, not in the table).
"""
from __future__ import annotations

import ast
import re
import string
from pathlib import Path

FILES = ["framework.py", "data.py", "excel.py", "programs.py", "parameters.py", "cascade.py"]
SPEC = re.compile(r"%(?:\((\w+)\))?[#0\- +]*(\*|\d+)?(?:\.(\*|\d+))?[hlL]?([diouxXeEfFgGcrsa%])")


def count_percent(s: str):
    """(positional placeholders, named placeholders)"""
    pos, named = 0, set()
    for m in SPEC.finditer(s):
        if m.group(4) == "%":
            continue
        if m.group(1):
            named.add(m.group(1))
        else:
            pos += 1 + (m.group(2) == "*") + (m.group(3) == "*")
    return pos, named


def const_str(node):
    """The literal text of a string constant or an implicit concatenation; None for anything else."""
    if isinstance(node, ast.Constant) and isinstance(node.value, str):
        return node.value
    return None


def rows_of_file(path: Path):
    src = path.read_text()
    tree = ast.parse(src)
    parents = {}
    for node in ast.walk(tree):
        for ch in ast.iter_child_nodes(node):
            parents[ch] = node
    rows, unknown = [], []

    def context(node):
        """exception class if the expression is (an argument of) a raise, else 'assert' / 'message'"""
        n = node
        while n in parents:
            p = parents[n]
            if isinstance(p, ast.Raise):
                exc = p.exc
                if isinstance(exc, ast.Call):
                    f = exc.func
                    return f.id if isinstance(f, ast.Name) else (f.attr if isinstance(f, ast.Attribute) else "raise")
                return "raise"
            if isinstance(p, ast.Assert):
                return "assert"
            if isinstance(p, (ast.FunctionDef, ast.ClassDef, ast.Module)):
                break
            n = p
        return "message"

    for node in ast.walk(tree):
        if isinstance(node, ast.BinOp) and isinstance(node.op, ast.Mod):
            s = const_str(node.left)
            if s is None:
                continue
            pos, named = count_percent(s)
            if named:
                if isinstance(node.right, ast.Dict):
                    keys = {k.value for k in node.right.keys if isinstance(k, ast.Constant)}
                    rows.append((path.name, node.lineno, context(node), "percent", len(named), len(named & keys), True))
                else:
                    unknown.append((path.name, node.lineno, "named placeholders with a non-literal mapping"))
                continue
            par = parents.get(node)
            # mis-parenthesised: the formatting expression is the first of several positional arguments of an exception constructor
            misparen = isinstance(par, ast.Call) and len(par.args) > 1 and par.args[0] is node and isinstance(parents.get(par), ast.Raise)
            if isinstance(node.right, ast.Tuple):
                supplied = len(node.right.elts)
            elif isinstance(node.right, (ast.Name,)) and pos != 1 and not misparen:
                unknown.append((path.name, node.lineno, f"right-hand side `{node.right.id}` may be a tuple"))
                continue
            else:
                supplied = 1
            rows.append((path.name, node.lineno, context(node), "percent", pos, supplied, not misparen))
        elif isinstance(node, ast.Call) and isinstance(node.func, ast.Attribute) and node.func.attr == "format":
            s = const_str(node.func.value)
            if s is None:
                continue
            try:
                fields = [f for (_, f, _, _) in string.Formatter().parse(s) if f is not None]
            except ValueError:
                rows.append((path.name, node.lineno, context(node), "format", 1, 0, True))
                continue
            auto = sum(1 for f in fields if f == "")
            idx = [int(re.match(r"\d+", f).group(0)) for f in fields if re.match(r"\d+", f)]
            named = {re.match(r"[A-Za-z_]\w*", f).group(0) for f in fields if re.match(r"[A-Za-z_]\w*", f)}
            needed = max(auto, (max(idx) + 1) if idx else 0)
            if any(isinstance(a, ast.Starred) for a in node.args) or any(k.arg is None for k in node.keywords):
                unknown.append((path.name, node.lineno, "format with * or ** arguments"))
                continue
            kw = {k.arg for k in node.keywords}
            supplied = len(node.args) if named <= kw else -1
            rows.append((path.name, node.lineno, context(node), "format", needed, max(supplied, 0) if supplied >= 0 else 0, supplied >= 0))
    rows.sort(key=lambda r: (FILES.index(r[0]), r[1]))
    return rows, unknown


def table(repo: Path):
    rows, unknown = [], []
    for f in FILES:
        r, u = rows_of_file(repo / "atomica" / f)
        rows += r
        unknown += u
    return rows, unknown


def wellformed(row) -> bool:
    (_, _, _, kind, ph, sup, par) = row
    return (ph == sup and par) if kind == "percent" else (ph <= sup and par)


def lean_source(rows) -> str:
    out = ["/- GENERATED by harness/vlib/c18errfmt.py from atomica/{framework,data,excel,programs,parameters,cascade}.py -- do not edit. -/",
           "namespace Atomica.Generated.ErrorsFmt", "",
           "inductive Kind | percent | format", "  deriving DecidableEq, Repr", "",
           "structure Row where", "  file : String", "  line : Nat", "  cls : String", "  kind : Kind", "  placeholders : Nat", "  supplied : Nat", "  parenthesised : Bool", "",
           "/-- a formatting expression cannot raise `TypeError` / `IndexError` instead of producing the message -/",
           "def Row.wellformed (r : Row) : Bool :=", "  match r.kind with", "  | .percent => r.placeholders == r.supplied && r.parenthesised", "  | .format => decide (r.placeholders ≤ r.supplied) && r.parenthesised", "",
           "def table : List Row := ["]
    body = []
    for (f, ln, cls, kind, ph, sup, par) in rows:
        body.append(f'  ⟨"{f}", {ln}, "{cls}", .{kind}, {ph}, {sup}, {"true" if par else "false"}⟩')
    out.append(",\n".join(body))
    out += ["]", "", "end Atomica.Generated.ErrorsFmt", ""]
    return "\n".join(out)
