"""
vlib.c18mut -- the single-rule mutation catalogue for frameworks (property C18) and the reader that turns a framework .xlsx
into a spec (so that the same mutations apply to library files).

Every mutation has a *known verdict*:
    expect  'reject' | 'accept'
    rule    the RuleId the Lean rule model must report (None when the mutation is below the rule model: sheets, columns, cell types)
    cls     the dedicated exception class the implementation must raise ('InvalidFramework' | 'InvalidCascade')
A mutation function edits the spec in place and returns True, or returns False when it does not apply to this framework.
"""
from __future__ import annotations

import copy

from vlib.c18gen import SHEET_COLS, SHEET_KEY, isna, fn_parse

CATALOGUE = []


def mutation(mid, expect, rule=None, cls="InvalidFramework", model=None, runs=True, sparse=False):
    """model: whether the abstract rule model sees the mutation (default: rule is not None or expect == 'accept' at rule level)."""

    def deco(f):
        CATALOGUE.append({"id": mid, "fn": f, "expect": expect, "rule": rule, "cls": cls, "model": (rule is not None) if model is None else model, "runs": runs, "sparse": sparse})
        return f

    return deco


# ----------------------------------------------------------------------------------------------
# a structured view of a spec
# ----------------------------------------------------------------------------------------------
class Info:
    def __init__(self, spec):
        self.spec = spec
        self.pts = [p[0] for p in spec["poptypes"]] if spec.get("poptypes") else ["default"]
        self.first = self.pts[0]
        self.comps = {c["code"]: c for c in spec.get("comps", []) if isinstance(c.get("code"), str)}
        self.characs = {c["code"]: c for c in spec.get("characs", []) if isinstance(c.get("code"), str)}
        self.pars = {c["code"]: c for c in spec.get("pars", []) if isinstance(c.get("code"), str)}
        self.inters = {c["code"]: c for c in (spec.get("interactions") or []) if isinstance(c.get("code"), str)}
        self.links = []  # (matrix index, from, to, [pars])
        for mi, tr in enumerate(spec.get("transitions", [])):
            for (a, c, s) in tr["cells"]:
                if isinstance(s, str):
                    self.links.append((mi, a, c, [p.strip() for p in s.split(",")]))

    def pt(self, row):
        v = row.get("poptype")
        return self.first if isna(v) else v

    def flag(self, c, key):
        v = self.comps[c].get(key)
        return (not isna(v)) and v == "y"

    def kind(self, c):
        for k in ("sink", "source", "junction"):
            if self.flag(c, k):
                return k
        return "normal"

    def of_kind(self, kind, pt=None):
        return [c for c in self.comps if self.kind(c) == kind and (pt is None or self.pt(self.comps[c]) == pt)]

    def matrix_of(self, comp):
        for mi, tr in enumerate(self.spec.get("transitions", [])):
            if comp in tr["comps"]:
                return mi
        return None

    def from_comps(self, par):
        return [a for (_, a, c, ps) in self.links for p in ps if p == par]

    def to_comps(self, par):
        return [c for (_, a, c, ps) in self.links for p in ps if p == par]

    def trans_pars(self):
        return [p for p in self.pars if self.from_comps(p)]

    def timed(self, p):
        v = self.pars[p].get("timed")
        return (not isna(v)) and v == "y"

    def deps_of(self, p):
        f = self.pars[p].get("function")
        if not isinstance(f, str):
            return []
        ok, names = fn_parse(f)
        return names if ok else []

    def used_by_function(self, name):
        return [p for p in self.pars if name in self.deps_of(p)]

    def used(self, name):
        """is the code name referenced anywhere (functions, components, denominators, cells, cascades)"""
        if self.used_by_function(name):
            return True
        for h in self.characs.values():
            if isinstance(h.get("components"), str) and name in [x.strip() for x in h["components"].split(",")]:
                return True
            if h.get("denominator") == name:
                return True
        if any(name in ps or name in (a, c) for (_, a, c, ps) in self.links):
            return True
        for cas in self.spec.get("cascades") or []:
            for st in cas["stages"]:
                if isinstance(st[1], str) and name in [x.strip() for x in st[1].split(",")]:
                    return True
        return False

    def fresh(self, base):
        n = base
        k = 0
        names = set(self.comps) | set(self.characs) | set(self.pars) | set(self.inters) | set(self.pts)
        while n in names:
            k += 1
            n = "%s%d" % (base, k)
        return n

    def fresh_display(self, base):
        disp = {r.get("display") for sh in ("comps", "characs", "pars", "interactions") for r in (self.spec.get(sh) or [])}
        n = base
        k = 0
        while n in disp:
            k += 1
            n = "%s %d" % (base, k)
        return n

    def cell(self, mi, a, c, s):
        cells = self.spec["transitions"][mi]["cells"]
        for cl in cells:
            if cl[0] == a and cl[1] == c:
                cl[2] = s if isna(cl[2]) else cl[2] + "," + s
                return
        cells.append([a, c, s])

    def set_cell(self, mi, a, c, s):
        cells = self.spec["transitions"][mi]["cells"]
        for cl in cells:
            if cl[0] == a and cl[1] == c:
                cl[2] = s
                return
        cells.append([a, c, s])

    def has_cell(self, a, c):
        return any(x == a and y == c for (_, x, y, _) in self.links)

    def new_par(self, base, fmt, pt=None, **kw):
        code = self.fresh(base)
        p = {"code": code, "display": self.fresh_display("Mutant " + base), "format": fmt, "page": kw.pop("page", "pp"), "default": kw.pop("default", 0.1), "function": kw.pop("function", None)}
        p.update(kw)
        if any("poptype" in x for x in self.spec["pars"]) or (pt is not None and pt != self.first):
            p["poptype"] = pt if pt is not None else self.first
        self.spec["pars"].append(p)
        self.pars[code] = p
        return code


def pick(r, l):
    l = list(l)
    return r.choice(l) if l else None


# ----------------------------------------------------------------------------------------------
# sheet / column / cell-type level (below the rule model)
# ----------------------------------------------------------------------------------------------
@mutation("sheet.drop.parameters", "reject")
def _m(spec, r):
    spec.setdefault("drop_sheets", []).append("parameters")
    return True


@mutation("sheet.drop.compartments", "reject")
def _m(spec, r):
    spec.setdefault("drop_sheets", []).append("compartments")
    i = Info(spec)
    return any(i.used(c) for c in i.comps)


@mutation("sheet.empty.transitions", "accept", model=False)
def _m(spec, r):
    """a Transitions sheet without any content is the same as no Transitions sheet"""
    if any(":" in (p.get("function") or "") for p in spec["pars"] if isinstance(p.get("function"), str)):
        return False
    if any(p.get("format") in ("number", "Number") and p.get("targetable") == "y" for p in spec["pars"]):
        return False
    spec["transitions"] = []
    spec["empty_sheets"] = ["transitions"]
    return True


@mutation("sheet.drop.transitions", "accept", model=False)
def _m(spec, r):
    i = Info(spec)
    # without transitions: flow dependencies and number-targetable parameters would break other rules
    if any(":" in (p.get("function") or "") for p in spec["pars"] if isinstance(p.get("function"), str)):
        return False
    if any(p.get("format") in ("number", "Number") and p.get("targetable") == "y" for p in spec["pars"]):
        return False
    spec.setdefault("drop_sheets", []).append("transitions")
    return True


def _drop_required(sheet, col):
    def f(spec, r):
        if not spec.get(SHEET_KEY[sheet]):
            return False
        spec.setdefault("drop", {}).setdefault(sheet, []).append(col)
        return True

    return f


for _sheet, _cols in [("compartments", ["code name", "display name"]), ("characteristics", ["code name", "display name", "components"]), ("parameters", ["code name", "display name", "format"])]:
    for _col in _cols:
        mutation("column.drop.%s.%s" % (_sheet, _col.replace(" ", "_")), "reject")(_drop_required(_sheet, _col))


SAFE_OPTIONAL = {"compartments": ["setup weight", "databook order", "guidance", "calibrate", "default value"],
                 "characteristics": ["setup weight", "databook order", "guidance", "calibrate", "default value"],
                 "parameters": ["databook order", "guidance", "calibrate", "default value", "minimum value", "maximum value", "timescale"]}
KEY_OF = {sheet: {c: k for (k, c) in cols} for sheet, cols in SHEET_COLS.items()}


def _blank_optional(sheet, col):
    def f(spec, r):
        rows = spec.get(SHEET_KEY[sheet]) or []
        if not rows:
            return False
        k = KEY_OF[sheet][col]
        if col == "calibrate" and any(not isna(x.get(k)) for x in rows):
            pass
        for x in rows:
            x[k] = None
        # the column must exist and be entirely empty: keep the heading with an extra (empty) column
        spec.setdefault("extra_cols", {}).setdefault(sheet, {})[col] = None
        return True

    return f


for _sheet, _cols in SAFE_OPTIONAL.items():
    for _col in _cols:
        mutation("column.blank.%s.%s" % (_sheet, _col.replace(" ", "_")), "accept", model=False)(_blank_optional(_sheet, _col))


@mutation("column.blank.parameters.format", "reject")
def _m(spec, r):
    for p in spec["pars"]:
        p["format"] = None
    return bool(Info(spec).trans_pars())


@mutation("column.duplicate_heading", "reject")
def _m(spec, r):
    sheet = r.choice(["compartments", "parameters"])
    # a second 'display name' column: implemented as an extra column whose heading collides after stripping
    spec.setdefault("extra_cols", {}).setdefault(sheet, {})["display name "] = "x"
    return True


@mutation("cell.flag.invalid", "reject")
def _m(spec, r):
    c = pick(r, spec["comps"])
    c[r.choice(["sink", "source", "junction"])] = r.choice(["x", "Y", "yes", 1])
    return True


@mutation("cell.flag.invalid.par", "reject")
def _m(spec, r):
    p = pick(r, spec["pars"])
    p[r.choice(["targetable", "timed", "derivative"])] = r.choice(["maybe", "N", 0])
    return True


@mutation("cell.numeric.text", "reject")
def _m(spec, r):
    sheet, key = r.choice([("comps", "default"), ("characs", "default"), ("pars", "default"), ("pars", "timescale"), ("pars", "min"), ("comps", "order")])
    row = pick(r, spec.get(sheet) or [])
    if row is None:
        return False
    row[key] = r.choice(["abc", "1,5", "ten"])
    return True


@mutation("cell.code.empty", "reject")
def _m(spec, r):
    i = Info(spec)
    cands = [c for c in i.comps if not i.used(c)] + [p for p in i.pars if not i.used(p)]
    n = pick(r, cands)
    if n is None:
        return False
    (i.comps.get(n) or i.pars.get(n))["code"] = None
    return True


@mutation("cell.display.empty", "reject")
def _m(spec, r):
    row = pick(r, spec["comps"] + spec["pars"] + spec["characs"])
    row["display"] = None
    return True


@mutation("cell.code.duplicate_in_sheet", "reject")
def _m(spec, r):
    i = Info(spec)
    cands = [p for p in i.pars if not i.used(p)]
    others = [p for p in i.pars]
    n = pick(r, cands)
    if n is None or len(others) < 2:
        return False
    i.pars[n]["code"] = pick(r, [p for p in others if p != n])
    return True


@mutation("cell.matrix.number", "reject")
def _m(spec, r):
    i = Info(spec)
    for mi, tr in enumerate(spec["transitions"]):
        names = [c for c in tr["comps"] if c in i.comps and i.kind(c) == "normal"]
        for a in names:
            for c in names:
                if a != c and not i.has_cell(a, c):
                    i.set_cell(mi, a, c, 5)
                    return True
    return False


@mutation("cell.components.number", "reject")
def _m(spec, r):
    h = pick(r, spec["characs"])
    if h is None:
        return False
    h["components"] = 5
    return True


@mutation("cell.function.number", "reject", rule="functionNotString")
def _m(spec, r):
    i = Info(spec)
    p = pick(r, [p for p in i.pars if isinstance(i.pars[p].get("function"), str) and not i.used_by_function(p)])
    if p is None:
        return False
    i.pars[p]["function"] = 3
    return True


# ----------------------------------------------------------------------------------------------
# rule level: undefined and duplicate names
# ----------------------------------------------------------------------------------------------
@mutation("undefined.matrix_compartment", "reject", "matCompUndefined")
def _m(spec, r):
    if not spec.get("transitions"):
        return False
    pick(r, spec["transitions"])["comps"].append("zzundef")
    return True


@mutation("undefined.matrix_column_only", "reject", "matCompUndefined")
def _m(spec, r):
    """an undefined compartment that appears only as a COLUMN heading of the transition matrix (every row label is valid), with a link in that column"""
    i = Info(spec)
    l = pick(r, [l for l in i.links if i.kind(l[1]) == "normal" and l[3] != [">"]])
    if l is None:
        return False
    tr = spec["transitions"][l[0]]
    tr["rows"] = list(tr.get("rows") or tr["comps"])
    tr["comps"] = list(tr["comps"]) + ["zzundef"]
    tr["cols_only"] = ["zzundef"]
    code = i.new_par("undefcol", "rate", pt=i.pt(i.comps[l[1]]))
    tr["cells"].append([l[1], "zzundef", code])
    return True


@mutation("undefined.matrix_parameter", "reject", "linkParUndefined")
def _m(spec, r):
    i = Info(spec)
    l = pick(r, i.links)
    if l is None:
        return False
    i.cell(l[0], l[1], l[2], "zzundef")
    return True


@mutation("undefined.component", "reject", "componentUndefined")
def _m(spec, r):
    h = pick(r, [h for h in spec["characs"] if isinstance(h.get("components"), str)])
    if h is None:
        return False
    h["components"] = h["components"] + ", zzundef"
    return True


@mutation("undefined.denominator", "reject", "denomUndefined")
def _m(spec, r):
    i = Info(spec)
    # not a characteristic that is summed into another one or shown as a cascade stage (it would get a denominator there)
    h = pick(r, [h for h in spec["characs"] if isinstance(h.get("code"), str) and (not isna(h.get("denominator")) or not i.used(h["code"]))])
    if h is None:
        return False
    h["denominator"] = "zzundef"
    return True


@mutation("undefined.function_dependency", "reject", "depUndefined")
def _m(spec, r):
    i = Info(spec)
    p = pick(r, [p for p in i.pars if isinstance(i.pars[p].get("function"), str) and not i.pars[p]["function"].startswith(("SRC_", "TGT_")) and fn_parse(i.pars[p]["function"])[0]])
    if p is None:
        return False
    i.pars[p]["function"] = "(" + i.pars[p]["function"] + ") + 0*zzundef"
    return True


@mutation("duplicate.code_name", "reject", "nameDuplicate")
def _m(spec, r):
    i = Info(spec)
    target = pick(r, list(i.comps) + list(i.characs))
    if target is None:
        return False
    # a new databook parameter that re-uses the code name of a compartment / characteristic
    code = i.new_par("dupe", None)
    i.pars[code]["code"] = target
    return True


@mutation("duplicate.code_name.poptype", "reject", "nameDuplicate")
def _m(spec, r):
    i = Info(spec)
    if not spec.get("poptypes"):
        return False
    code = i.new_par("dupe", None)
    i.pars[code]["code"] = i.pts[-1]
    return True


from vlib.c18gen import RESERVED_KEYWORDS as _KW  # noqa: E402


def _add_interaction(spec, i, code):
    """a new interaction (Interactions sheet is created when the framework has none) with the given code name"""
    inter = {"code": code, "display": i.fresh_display("Mutant mixing"), "default": 1}
    if any("from" in x for x in (spec.get("interactions") or [])) or spec.get("poptypes"):
        inter.update({"from": i.first, "to": i.first})
    spec.setdefault("interactions", []).append(inter)


@mutation("duplicate.code_name.interaction", "reject", "nameDuplicate")
def _m(spec, r):
    """an interaction whose code name is already the code name of a compartment / characteristic / parameter (the shadowed quantity is not used in any function,
    so nothing but the name check can object)"""
    i = Info(spec)
    target = pick(r, [n for n in list(i.comps) + list(i.characs) + list(i.pars) if not i.used_by_function(n)])
    if target is None:
        return False
    _add_interaction(spec, i, target)
    return True


@mutation("reserved.keyword.interaction", "reject", "nameKeyword")
def _m(spec, r):
    i = Info(spec)
    _add_interaction(spec, i, r.choice(list(_KW)[:3]))
    return True


@mutation("duplicate.display_name", "reject", "displayDuplicate")
def _m(spec, r):
    rows = spec["comps"] + spec["characs"] + spec["pars"]
    a, b = r.sample(rows, 2)
    if a["display"] == b["display"]:
        return False
    a["display"] = b["display"]
    return True


def _reserved(code):
    def f(spec, r):
        i = Info(spec)
        p = i.new_par("res", None)
        i.pars[p]["code"] = code
        return True

    return f


for _k, _kw in enumerate(_KW):
    mutation("reserved.keyword." + _kw, "reject", "nameKeyword", sparse=_k >= 3)(_reserved(_kw))
for _k, _ch in enumerate([":", ",", ";", "/", "+", "-", "*", "'", '"', " ", "@"]):
    mutation("reserved.symbol.%02d" % _k, "reject", "nameSymbol", sparse=_k >= 2)(_reserved("sy" + _ch + "m"))


@mutation("reserved.symbol.compartment", "reject", "nameSymbol")
def _m(spec, r):
    i = Info(spec)
    c = {"code": "new" + r.choice(["-", " ", "+"]) + "comp", "display": i.fresh_display("Mutant compartment"), "page": None, "default": None}
    for k in ("source", "sink", "junction", "poptype", "sw"):
        if any(k in x for x in spec["comps"]):
            c[k] = "n" if k in ("source", "sink", "junction") else None
    spec["comps"].append(c)
    return True


# ----------------------------------------------------------------------------------------------
# rule level: units on junction / source / sink links
# ----------------------------------------------------------------------------------------------
def _clear_ts(p):
    if "timescale" in p:
        p["timescale"] = None


def _junction_outflow(fmt):
    def f(spec, r):
        i = Info(spec)
        cands = [p for p in i.trans_pars() if any(i.kind(a) == "junction" for a in i.from_comps(p)) and not i.timed(p)]
        p = pick(r, cands)
        if p is None:
            return False
        i.pars[p]["format"] = fmt
        return True

    return f


for _fmt in ["probability", "rate", "number", "duration"]:
    mutation("units.junction_outflow." + _fmt, "reject", "junctionNotProportion")(_junction_outflow(_fmt))


def _source_outflow(fmt):
    def f(spec, r):
        i = Info(spec)
        p = pick(r, [p for p in i.trans_pars() if any(i.kind(a) == "source" for a in i.from_comps(p))])
        if p is None:
            return False
        i.pars[p]["format"] = fmt
        _clear_ts(i.pars[p])
        return True

    return f


for _fmt in ["probability", "rate", "duration", "proportion"]:
    mutation("units.source_outflow." + _fmt, "reject", "sourceNotNumber")(_source_outflow(_fmt))


@mutation("units.proportion_from_compartment", "reject", "proportionNotJunction")
def _m(spec, r):
    i = Info(spec)
    p = pick(r, [p for p in i.trans_pars() if all(i.kind(a) == "normal" for a in i.from_comps(p)) and not i.timed(p)])
    if p is None:
        return False
    i.pars[p]["format"] = "proportion"
    _clear_ts(i.pars[p])
    return True


@mutation("units.proportion_shared_with_compartment", "reject", "proportionNotJunction")
def _m(spec, r):
    """a junction's proportion parameter is ALSO put on a link out of an ordinary compartment whose row stands above the junction's row: every outflow of a
    proportion parameter must leave a junction, whatever the order of the rows"""
    i = Info(spec)
    cands = []
    for (mi, a, c, ps) in i.links:
        if i.kind(a) != "junction" or ps == [">"]:
            continue
        tr = spec["transitions"][mi]
        rows = list(tr.get("rows") or tr["comps"])
        for p in ps:
            if p in i.pars and i.pars[p].get("format") == "proportion":
                for b in rows[: rows.index(a)] if a in rows else []:
                    if b in i.comps and i.kind(b) == "normal" and p not in [q_ for (_, x, _, qs) in i.links if x == b for q_ in qs]:
                        for d in rows:
                            if d != b and d in i.comps and i.kind(d) in ("normal", "sink") and not i.has_cell(b, d):
                                cands.append((mi, b, d, p))
    pk = pick(r, cands)
    if pk is None:
        return False
    i.cell(pk[0], pk[1], pk[2], pk[3])
    return True


@mutation("units.outflow_from_sink", "reject", "outflowFromSink")
def _m(spec, r):
    i = Info(spec)
    s = pick(r, i.of_kind("sink"))
    if s is None:
        return False
    dst = pick(r, [c for c in i.of_kind("normal", i.pt(i.comps[s])) if i.matrix_of(c) == i.matrix_of(s)])
    if dst is None or i.matrix_of(s) is None:
        return False
    p = i.new_par("resur", r.choice(["rate", "probability", "number"]), pt=i.pt(i.comps[s]))
    i.cell(i.matrix_of(s), s, dst, p)
    return True


@mutation("units.inflow_to_source", "reject", "inflowToSource")
def _m(spec, r):
    i = Info(spec)
    s = pick(r, i.of_kind("source"))
    if s is None or i.matrix_of(s) is None:
        return False
    src = pick(r, [c for c in i.of_kind("normal", i.pt(i.comps[s])) if i.matrix_of(c) == i.matrix_of(s)])
    if src is None:
        return False
    p = i.new_par("unborn", r.choice(["rate", "probability"]), pt=i.pt(i.comps[s]))
    i.cell(i.matrix_of(s), src, s, p)
    return True


@mutation("units.transition_format_unknown", "reject", "transFormat")
def _m(spec, r):
    i = Info(spec)
    p = pick(r, [p for p in i.trans_pars() if not i.timed(p) and all(i.kind(a) == "normal" for a in i.from_comps(p))])
    if p is None:
        return False
    i.pars[p]["format"] = r.choice(["fraction", "per year", None])
    _clear_ts(i.pars[p])
    return True


@mutation("units.number_targetable_not_transition", "reject", "numberTargetable")
def _m(spec, r):
    i = Info(spec)
    p = i.new_par("ntarg", "number", targetable="y")
    return True


@mutation("units.parameter_twice_from_compartment", "reject", "parTwiceFromComp")
def _m(spec, r):
    i = Info(spec)
    l = pick(r, [l for l in i.links if l[3] != [">"] and not any(i.timed(p) for p in l[3] if p in i.pars)])
    if l is None:
        return False
    p = l[3][0]
    if r.random() < 0.5:
        i.cell(l[0], l[1], l[2], p)  # 'p,p' in one cell
    else:
        others = [c for c in spec["transitions"][l[0]]["comps"] if c in i.comps and i.kind(c) == "normal" and c != l[2] and not i.has_cell(l[1], c)]
        if not others:
            i.cell(l[0], l[1], l[2], p)
        else:
            i.set_cell(l[0], l[1], r.choice(others), p)
    return True


@mutation("units.source_parameter_shared", "reject", "sourceShared")
def _m(spec, r):
    i = Info(spec)
    p = pick(r, [p for p in i.trans_pars() if any(i.kind(a) == "source" for a in i.from_comps(p))])
    if p is None:
        return False
    mi = [l[0] for l in i.links if p in l[3]][0]
    names = [c for c in spec["transitions"][mi]["comps"] if c in i.comps and i.kind(c) == "normal"]
    for a in names:
        for c in names:
            if a != c and not i.has_cell(a, c):
                i.set_cell(mi, a, c, p)
                return True
    return False


@mutation("units.timescale_nonpositive", "reject", "tsNonPositive")
def _m(spec, r):
    i = Info(spec)
    p = pick(r, [p for p in i.pars if i.pars[p].get("format") not in ("proportion", "Proportion")])
    if p is None:
        return False
    i.pars[p]["timescale"] = r.choice([0, -1, -0.25])
    return True


@mutation("units.timescale_without_units", "reject", "tsNoUnits")
def _m(spec, r):
    """a timescale for a quantity without units: accepted by the validator, but `ProjectData.new` cannot write the databook"""
    i = Info(spec)
    i.new_par("nounit", None, timescale=r.choice([1, 0.5]))
    return True


@mutation("units.timescale_on_proportion", "reject", "tsProportion")
def _m(spec, r):
    i = Info(spec)
    p = pick(r, [p for p in i.pars if i.pars[p].get("format") in ("proportion", "Proportion")])
    if p is None:
        p = i.new_par("prop", "proportion")
    i.pars[p]["timescale"] = r.choice([1, 0.5])
    return True


# ----------------------------------------------------------------------------------------------
# rule level: residual links and junction cycles (rules the engine relies on; the validator does not check them)
# ----------------------------------------------------------------------------------------------
def _free_cell(i, spec, r, src_kind, dst_kind):
    for mi, tr in enumerate(spec["transitions"]):
        srcs = [c for c in tr["comps"] if c in i.comps and i.kind(c) == src_kind]
        dsts = [c for c in tr["comps"] if c in i.comps and i.kind(c) == dst_kind]
        r.shuffle(srcs)
        r.shuffle(dsts)
        for a in srcs:
            for c in dsts:
                if a != c and not i.has_cell(a, c):
                    return mi, a, c
    return None


@mutation("residual.from_compartment", "reject", "residualNotJunction")
def _m(spec, r):
    i = Info(spec)
    f = _free_cell(i, spec, r, r.choice(["normal", "sink", "source"]), "normal")
    if f is None:
        return False
    i.set_cell(f[0], f[1], f[2], ">")
    return True


@mutation("residual.into_source", "reject", "residualIntoSource")
def _m(spec, r):
    i = Info(spec)
    f = _free_cell(i, spec, r, "junction", "source")
    if f is None or any(">" in l[3] for l in i.links if l[1] == f[1]):
        return False
    i.set_cell(f[0], f[1], f[2], ">")
    return True


@mutation("residual.two", "reject", "residualTwo")
def _m(spec, r):
    i = Info(spec)
    js = [l for l in i.links if l[3] == [">"]]
    l = pick(r, js)
    if l is None:
        return False
    dst = pick(r, [c for c in spec["transitions"][l[0]]["comps"] if c in i.comps and i.kind(c) == "normal" and not i.has_cell(l[1], c)])
    if dst is None:
        return False
    i.set_cell(l[0], l[1], dst, ">")
    return True


@mutation("junction.cycle", "reject", "junctionCycle")
def _m(spec, r):
    i = Info(spec)
    j = pick(r, [j for j in i.of_kind("junction") if i.matrix_of(j) is not None])
    if j is None:
        return False
    p = i.new_par("jloop", "proportion", pt=i.pt(i.comps[j]))
    i.cell(i.matrix_of(j), j, j, p)
    return True


# ----------------------------------------------------------------------------------------------
# rule level: functions
# ----------------------------------------------------------------------------------------------
def _fn_pars(i, pred=lambda p: True):
    return [p for p in i.pars if isinstance(i.pars[p].get("function"), str) and fn_parse(i.pars[p]["function"])[0] and not i.pars[p]["function"].startswith(("SRC_", "TGT_")) and pred(p)]


@mutation("function.self_reference", "reject", "depSelfRef")
def _m(spec, r):
    i = Info(spec)
    p = pick(r, _fn_pars(i, lambda p: i.pars[p].get("derivative") != "y"))
    if p is None:
        return False
    i.pars[p]["function"] = "(" + i.pars[p]["function"] + ") + 0*" + p
    return True


@mutation("function.cycle.two", "reject", "cyclic")
def _m(spec, r):
    i = Info(spec)
    a = i.new_par("cyca", None, page=None, default=None, function="1")
    b2 = i.new_par("cycb", None, page=None, default=None, function=a + "+1")
    i.pars[a]["function"] = b2 + "*2"
    return True


@mutation("function.cycle.existing", "reject", "cyclic")
def _m(spec, r):
    i = Info(spec)
    # p depends on q (a databook parameter without function): give q a function of p
    for p in r.sample(_fn_pars(i), len(_fn_pars(i))):
        if i.pars[p].get("derivative") == "y":
            continue
        for q in i.deps_of(p):
            if q in i.pars and q != p and isna(i.pars[q].get("function")) and i.pars[q].get("derivative") != "y" and i.pt(i.pars[q]) == i.pt(i.pars[p]):
                i.pars[q]["function"] = p + "*1"
                return True
    return False


@mutation("function.unsupported_call", "reject", "functionInvalid")
def _m(spec, r):
    i = Info(spec)
    p = pick(r, _fn_pars(i))
    if p is None:
        return False
    i.pars[p]["function"] = r.choice(["abs(%s)", "log(%s)", "eval(%s)", "tanh(%s)", "int(%s)"]) % i.pars[p]["function"]
    return True


@mutation("function.syntax_error", "reject", "functionInvalid")
def _m(spec, r):
    i = Info(spec)
    p = pick(r, _fn_pars(i))
    if p is None:
        return False
    i.pars[p]["function"] = r.choice(["(%s", "%s +", "%s )", "%s ** ", "3 $ %s"]) % i.pars[p]["function"]
    return True


@mutation("function.double_underscore", "reject", "functionInvalid")
def _m(spec, r):
    i = Info(spec)
    p = pick(r, _fn_pars(i))
    if p is None:
        return False
    i.pars[p]["function"] = i.pars[p]["function"] + " + (1).__class__(0)"
    return True


@mutation("function.none_and_no_databook_page", "reject", "noFunctionNoPage")
def _m(spec, r):
    i = Info(spec)
    p = pick(r, [p for p in i.pars if isna(i.pars[p].get("function")) and not isna(i.pars[p].get("page")) and i.pars[p].get("derivative") != "y"])
    if p is None:
        return False
    i.pars[p]["page"] = None
    return True


@mutation("function.derivative_without_function", "reject", "derivNoFunction")
def _m(spec, r):
    i = Info(spec)
    p = pick(r, [p for p in i.pars if isna(i.pars[p].get("function")) and not isna(i.pars[p].get("page")) and not i.timed(p)])
    if p is None:
        return False
    i.pars[p]["derivative"] = "y"
    return True


@mutation("function.derivative_without_page", "reject", "derivNoPage")
def _m(spec, r):
    i = Info(spec)
    p = pick(r, [p for p in _fn_pars(i) if isna(i.pars[p].get("page")) and not i.timed(p) and not any(":" in d or "___" in d for d in i.deps_of(p))])
    if p is None:
        return False
    i.pars[p]["derivative"] = "y"
    return True


@mutation("function.flow_in_transition_parameter", "reject", "depFlowTransition")
def _m(spec, r):
    i = Info(spec)
    p = pick(r, [p for p in _fn_pars(i) if i.from_comps(p)])
    l = pick(r, [l for l in i.links if l[3] != [">"]])
    if p is None or l is None:
        return False
    i.pars[p]["function"] = "(" + i.pars[p]["function"] + ") + 0*" + r.choice(["%s:%s" % (l[1], l[2]), "%s:flow" % l[3][0], "%s:" % l[1], ":%s" % l[2]])
    return True


@mutation("function.flow_parameter_undefined", "reject", "depFlowParUndefined")
def _m(spec, r):
    i = Info(spec)
    i.new_par("fl", None, page=None, default=None, function="zzundef:flow")
    return True


@mutation("function.flow_of_non_transition_parameter", "reject", "depFlowNotTransition")
def _m(spec, r):
    i = Info(spec)
    q = pick(r, [p for p in i.pars if not i.from_comps(p)])
    if q is None:
        return False
    i.new_par("fl", None, pt=i.pt(i.pars[q]), page=None, default=None, function="%s:flow" % q)
    return True


@mutation("function.flow_compartment_undefined", "reject", "depFlowCompUndefined")
def _m(spec, r):
    i = Info(spec)
    c = pick(r, list(i.comps))
    i.new_par("fl", None, pt=i.pt(i.comps[c]), page=None, default=None, function=r.choice(["zzundef:%s" % c, "%s:zzundef" % c, "zzundef:", ":zzundef"]))
    return True


@mutation("function.flow_in_aggregation", "reject", "depFlowAgg")
def _m(spec, r):
    i = Info(spec)
    l = pick(r, [l for l in i.links if l[3] != [">"]])
    if l is None:
        return False
    i.new_par("fl", None, pt=i.pt(i.comps[l[1]]), page=None, default=None, function="SRC_POP_SUM(%s:%s)" % (l[1], l[2]))
    return True


@mutation("function.flow_in_derivative", "reject", None, model=False)
def _m(spec, r):
    """documented: flow rates cannot appear in any parameter that contributes directly or indirectly to transitions; a derivative
    parameter is integrated during the run, so a flow dependency makes the model unbuildable"""
    i = Info(spec)
    l = pick(r, [l for l in i.links if l[3] != [">"]])
    if l is None:
        return False
    i.new_par("dfl", None, pt=i.pt(i.comps[l[1]]), page="pp", default=0, derivative="y", function="%s:%s" % (l[1], l[2]))
    return True


@mutation("function.flow_indirect", "reject", None, model=False)
def _m(spec, r):
    i = Info(spec)
    p = pick(r, [p for p in _fn_pars(i) if i.from_comps(p)])
    l = pick(r, [l for l in i.links if l[3] != [">"]])
    if p is None or l is None:
        return False
    q = i.new_par("ifl", None, pt=i.pt(i.pars[p]), page=None, default=None, function="0*%s:%s" % (l[1], l[2]))
    i.pars[p]["function"] = "(" + i.pars[p]["function"] + ") + " + q
    return True


@mutation("function.interaction_without_aggregation", "reject", "depInteractionNoAgg")
def _m(spec, r):
    i = Info(spec)
    if not i.inters:
        spec.setdefault("interactions", []).append({"code": "zw", "display": i.fresh_display("Mutant weights")})
        i = Info(spec)
    w = pick(r, list(i.inters))
    i.new_par("iw", None, page=None, default=None, function="2*%s" % w)
    return True


@mutation("function.aggregation_of_expression", "reject", "aggFirstArg")
def _m(spec, r):
    i = Info(spec)
    q = pick(r, [p for p in i.pars if i.pt(i.pars[p]) == i.first])
    if q is None:
        return False
    i.new_par("agx", None, page=None, default=None, function=r.choice(["SRC_POP_AVG(%s+%s)", "TGT_POP_SUM(2*%s*%s)"]) % (q, q))
    return True


# ----------------------------------------------------------------------------------------------
# rule level: compartments and characteristics
# ----------------------------------------------------------------------------------------------
def _ensure(spec, sheet, key, value=None):
    for x in spec[sheet]:
        x.setdefault(key, value)


@mutation("compartment.two_kinds", "reject", "compFlags")
def _m(spec, r):
    i = Info(spec)
    c = pick(r, i.of_kind("junction") + i.of_kind("sink") + i.of_kind("source"))
    if c is None:
        return False
    k = i.kind(c)
    i.comps[c][r.choice([x for x in ("sink", "source", "junction") if x != k])] = "y"
    return True


@mutation("compartment.setup_weight_on_sink", "reject", "compSwSourceSink")
def _m(spec, r):
    i = Info(spec)
    c = pick(r, i.of_kind("sink") + i.of_kind("source"))
    if c is None:
        return False
    _ensure(spec, "comps", "sw")
    i.comps[c]["sw"] = r.choice([1, 0.5])
    return True


@mutation("compartment.setup_weight_without_data", "reject", "compSwNoData")
def _m(spec, r):
    i = Info(spec)
    c = pick(r, [c for c in i.of_kind("normal") + i.of_kind("junction") if isna(i.comps[c].get("page")) and isna(i.comps[c].get("default"))])
    if c is None:
        return False
    _ensure(spec, "comps", "sw")
    i.comps[c]["sw"] = 1
    return True


@mutation("compartment.sink_in_databook", "reject", "compSourceSinkPage")
def _m(spec, r):
    i = Info(spec)
    c = pick(r, i.of_kind("sink") + i.of_kind("source"))
    if c is None:
        return False
    i.comps[c]["page"] = "sv"
    _ensure(spec, "comps", "sw")
    i.comps[c]["sw"] = 0
    return True


@mutation("compartment.default_without_page", "reject", "compDefaultNoPage")
def _m(spec, r):
    i = Info(spec)
    c = pick(r, [c for c in i.of_kind("normal") if isna(i.comps[c].get("page"))])
    if c is None:
        return False
    i.comps[c]["default"] = r.choice([5, 0.5, -1])
    return True


@mutation("compartment.calibrate_without_page", "reject", "compCalibrate")
def _m(spec, r):
    i = Info(spec)
    c = pick(r, [c for c in i.comps if isna(i.comps[c].get("page"))])
    if c is None:
        return False
    _ensure(spec, "comps", "calibrate")
    for x in spec["comps"]:
        if not isna(x.get("page")):
            x["calibrate"] = "y"
    i.comps[c]["calibrate"] = "y"
    return True


@mutation("compartment.population_type_unknown", "reject", "compPopType")
def _m(spec, r):
    i = Info(spec)
    c = pick(r, [c for c in i.comps if not i.used(c)])
    if c is None:
        return False
    _ensure(spec, "comps", "poptype")
    i.comps[c]["poptype"] = "zzpt"
    return True


@mutation("characteristic.setup_weight_without_data", "reject", "characSwNoData")
def _m(spec, r):
    i = Info(spec)
    h = pick(r, [h for h in i.characs if isna(i.characs[h].get("page")) and isna(i.characs[h].get("default"))])
    if h is None:
        return False
    _ensure(spec, "characs", "sw")
    i.characs[h]["sw"] = 1
    return True


@mutation("characteristic.default_without_page", "reject", "characDefaultNoPage")
def _m(spec, r):
    i = Info(spec)
    h = pick(r, [h for h in i.characs if isna(i.characs[h].get("page"))])
    if h is None:
        return False
    i.characs[h]["default"] = 7
    return True


@mutation("characteristic.denominator_has_denominator", "reject", "denomHasDenom")
def _m(spec, r):
    i = Info(spec)
    d = pick(r, [h for h in i.characs if not isna(i.characs[h].get("denominator"))])
    if d is None:
        return False
    h = {"code": i.fresh("ratio"), "display": i.fresh_display("Mutant ratio"), "components": i.characs[d]["components"], "denominator": d, "page": None, "default": None}
    for k in ("poptype", "sw"):
        if any(k in x for x in spec["characs"]):
            h[k] = i.characs[d].get(k) if k == "poptype" else None
    spec["characs"].append(h)
    return True


@mutation("characteristic.denominator_not_in_databook", "reject", "denomNoPage")
def _m(spec, r):
    i = Info(spec)
    cands = [h for h in i.characs if not isna(i.characs[h].get("denominator")) and not isna(i.characs[h].get("page")) and (isna(i.characs[h].get("sw")) or i.characs[h]["sw"] > 0)]
    h = pick(r, cands)
    if h is None:
        return False
    d = i.characs[h]["denominator"]
    row = i.comps.get(d) or i.characs.get(d)
    if row is None:
        return False
    # the denominator leaves the databook; nothing else may depend on it being there
    row["page"] = None
    row["default"] = None
    if "sw" in row:
        row["sw"] = None
    if "calibrate" in row:
        row["calibrate"] = None
    return True


@mutation("characteristic.includes_fraction", "reject", "componentDenominator")
def _m(spec, r):
    """a characteristic with a denominator is a fraction: it cannot be summed into another characteristic"""
    i = Info(spec)
    d = pick(r, [h for h in i.characs if not isna(i.characs[h].get("denominator"))])
    if d is None:
        return False
    h = {"code": i.fresh("mix"), "display": i.fresh_display("Mutant mix"), "components": i.characs[d]["components"] + "," + d, "denominator": None, "page": None, "default": None}
    for k in ("poptype", "sw"):
        if any(k in x for x in spec["characs"]):
            h[k] = i.characs[d].get(k) if k == "poptype" else None
    spec["characs"].append(h)
    if spec.get("cascades") is None:
        return False  # the fallback cascade would contain the new characteristic and break nesting as well
    return True


@mutation("characteristic.calibrate_without_page", "reject", "characCalibrate")
def _m(spec, r):
    i = Info(spec)
    h = pick(r, [h for h in i.characs if isna(i.characs[h].get("page"))])
    if h is None:
        return False
    _ensure(spec, "characs", "calibrate")
    for x in spec["characs"]:
        if not isna(x.get("page")):
            x["calibrate"] = "y"
    i.characs[h]["calibrate"] = "y"
    return True


@mutation("characteristic.self_include", "reject", "characCyclic")
def _m(spec, r):
    i = Info(spec)
    h = pick(r, [h for h in i.characs if isna(i.characs[h].get("denominator"))])
    if h is None:
        return False
    i.characs[h]["components"] = i.characs[h]["components"] + "," + h
    return True


@mutation("characteristic.cyclic_includes", "reject", "characCyclic")
def _m(spec, r):
    i = Info(spec)
    for a in i.characs:
        if not isna(i.characs[a].get("denominator")):
            continue
        for b2 in [x.strip() for x in i.characs[a]["components"].split(",")]:
            if b2 in i.characs and isna(i.characs[b2].get("denominator")):
                i.characs[b2]["components"] = i.characs[b2]["components"] + "," + a
                return True
    return False


@mutation("characteristic.initialization_includes_sink", "reject", "initSourceSink")
def _m(spec, r):
    i = Info(spec)
    h = pick(r, [h for h in i.characs if not isna(i.characs[h].get("page")) and isna(i.characs[h].get("denominator")) and (isna(i.characs[h].get("sw")) or i.characs[h]["sw"] > 0)])
    if h is None:
        return False
    s = pick(r, [c for c in i.of_kind("sink") + i.of_kind("source") if i.pt(i.comps[c]) == i.pt(i.characs[h])])
    if s is None:
        return False
    i.characs[h]["components"] = i.characs[h]["components"] + "," + s
    return True


# ----------------------------------------------------------------------------------------------
# rule level: timed transitions
# ----------------------------------------------------------------------------------------------
def _untimed_simple(i):
    """transition parameters out of normal compartments only, into normal compartments, not used elsewhere"""
    out = []
    for p in i.trans_pars():
        if i.timed(p) or i.pars[p].get("derivative") == "y":
            continue
        if all(i.kind(a) == "normal" for a in i.from_comps(p)) and all(i.kind(c) == "normal" for c in i.to_comps(p)):
            out.append(p)
    return out


@mutation("timed.two_outflows", "reject", "timedTwo")
def _m(spec, r):
    i = Info(spec)
    tp = [p for p in i.trans_pars() if i.timed(p)]
    if tp:
        p = pick(r, tp)
        a = i.from_comps(p)[0]
    else:
        cands = [p for p in _untimed_simple(i) if len(i.from_comps(p)) == 1]
        p = pick(r, cands)
        if p is None:
            return False
        i.pars[p].update(timed="y", format="duration", targetable="n")
        a = i.from_comps(p)[0]
    mi = i.matrix_of(a)
    dst = pick(r, [c for c in spec["transitions"][mi]["comps"] if c in i.comps and i.kind(c) == "normal" and c != a and not i.has_cell(a, c)])
    if dst is None:
        return False
    q = i.new_par("tsecond", "duration", pt=i.pt(i.comps[a]), timed="y")
    i.set_cell(mi, a, dst, q)
    return True


def _timed_target(i, r):
    """a timed transition parameter (made from an untimed one, as timed.two_outflows does, when the framework has none)"""
    tp = [p for p in i.trans_pars() if i.timed(p)]
    if tp:
        return pick(r, tp)
    p = pick(r, [p for p in _untimed_simple(i) if len(i.from_comps(p)) == 1])
    if p is None:
        return None
    i.pars[p].update(timed="y", format="duration", targetable="n")
    _clear_ts(i.pars[p])
    return p


TIMED_VARYING_HOW = ["direct", "indirect", "time", "twodeep", "derivative", "characteristic", "dt"]


def _timed_varying(how):
    """the duration of a timed compartment is fixed when the model is built: a timed parameter whose function depends (directly, or through other parameters)
    on a compartment, a characteristic, the time or a derivative parameter cannot be honoured -- such a framework would be accepted and then fail at Model()
    with an assertion (rule `timedVarying` of the Lean model: closure of the parameter-dependency relation)"""

    def f(spec, r):
        i = Info(spec)
        p = _timed_target(i, r)
        if p is None:
            return False
        comp = i.from_comps(p)[0]
        pt = i.pt(i.comps[comp])
        h = how or r.choice(TIMED_VARYING_HOW)
        if h == "direct":
            i.pars[p]["function"] = "1 + %s/(%s + 1)" % (comp, comp)
        elif h == "time":
            i.pars[p]["function"] = "1 + 0.01*(t - 2000)"
        elif h == "dt":
            i.pars[p]["function"] = "1 + 4*dt"
        elif h == "characteristic":
            c = pick(r, [c for c in i.characs if i.pt(i.characs[c]) == pt])
            if c is None:
                return False
            i.pars[p]["function"] = "1 + 0*%s" % c
        elif h == "indirect":
            q = i.new_par("tvar", None, pt=pt, page=None, default=None, function="%s/(%s + 1)" % (comp, comp))
            i.pars[p]["function"] = "1 + %s" % q
        elif h == "twodeep":
            q2 = i.new_par("tdeep", None, pt=pt, page=None, default=None, function="0.001*%s" % comp)
            q1 = i.new_par("tmid", None, pt=pt, page=None, default=None, function="2*%s" % q2)
            i.pars[p]["function"] = "1 + %s" % q1
        else:  # through a derivative parameter (its own function is a constant: it varies because it is integrated)
            q = i.new_par("tacc", None, pt=pt, page="pp", default=0, derivative="y", function="0.01")
            i.pars[p]["function"] = "1 + %s" % q
        return True

    f.__doc__ = _timed_varying.__doc__
    return f


mutation("timed.function_of_state", "reject", "timedVarying")(_timed_varying(None))
for _how in TIMED_VARYING_HOW:  # one entry per way of varying (a random draw would leave e.g. the derivative clause untested on a quick run)
    mutation("timed.function_of_state." + _how, "reject", "timedVarying")(_timed_varying(_how))


@mutation("timed.constant_function", "accept")
def _m(spec, r):
    """a timed parameter may be a CONSTANT function of data parameters (one or two deep): accepted, builds and runs"""
    i = Info(spec)
    p = _timed_target(i, r)
    if p is None:
        return False
    pt = i.pt(i.comps[i.from_comps(p)[0]])
    b = i.new_par("tconst", "duration", pt=pt, page="pp", default=r.choice([None, 1.0]))
    if r.random() < 0.5:
        i.pars[p]["function"] = r.choice(["2*%s", "%s + 0.5", "max(%s, 1)"]).replace("%s", b)
    else:
        q = i.new_par("tconstmid", None, pt=pt, page=None, default=None, function="%s/2" % b)
        i.pars[p]["function"] = "1 + %s + %s" % (q, b)
    i.pars[p].update(page=None, default=None)
    return True


@mutation("timed.from_junction", "reject", "timedFromSpecial")
def _m(spec, r):
    i = Info(spec)
    f = _free_cell(i, spec, r, r.choice(["junction", "source"]), "normal")
    if f is None:
        return False
    q = i.new_par("tjunc", "duration", pt=i.pt(i.comps[f[1]]), timed="y")
    i.set_cell(f[0], f[1], f[2], q)
    return True


@mutation("timed.not_duration", "reject", "timedFormat")
def _m(spec, r):
    i = Info(spec)
    p = pick(r, [p for p in _untimed_simple(i) if i.pars[p].get("format") not in ("duration", "Duration", "Duration ") and not any(i.timed(x) for a in i.from_comps(p) for l in i.links if l[1] == a for x in l[3] if x in i.pars)])
    if p is None:
        return False
    i.pars[p].update(timed="y", targetable="n")
    return True


@mutation("timed.targetable", "reject", "timedTargetable")
def _m(spec, r):
    i = Info(spec)
    p = pick(r, [p for p in i.trans_pars() if i.timed(p)])
    if p is None:
        return False
    i.pars[p]["targetable"] = "y"
    return True


@mutation("timed.derivative", "reject", "timedDerivative")
def _m(spec, r):
    i = Info(spec)
    p = pick(r, [p for p in i.trans_pars() if i.timed(p)])
    if p is None:
        return False
    i.pars[p].update(derivative="y", function="0*" + p, page="pp")
    return True


@mutation("timed.flush_into_own_group", "reject", "timedSameGroup")
def _m(spec, r):
    """a -> b and b -> c both driven by the timed parameter; the row order decides whether the code notices"""
    i = Info(spec)
    for mi, tr in enumerate(spec["transitions"]):
        names = [c for c in tr["comps"] if c in i.comps and i.kind(c) == "normal" and not any(x in i.pars and i.timed(x) for l in i.links if l[1] == c for x in l[3])]
        # no junction may touch these compartments (the junction duration-group rule is outside the model)
        names = [c for c in names if not any((l[1] == c and i.kind(l[2]) == "junction") or (l[2] == c and i.kind(l[1]) == "junction") for l in i.links)]
        if len(names) < 3:
            continue
        a, b2, c = r.sample(names, 3)
        if i.has_cell(a, b2) or i.has_cell(b2, c):
            continue
        q = i.new_par("tgroup", "duration", pt=i.pt(i.comps[a]), timed="y")
        i.set_cell(mi, a, b2, q)
        i.set_cell(mi, b2, c, q)
        return True
    return False


# ----------------------------------------------------------------------------------------------
# rule level: cascades
# ----------------------------------------------------------------------------------------------
def _nested_pair(i, pt=None):
    """(big, small): a characteristic/compartment list and a strict part of it, same population type"""
    for h, row in i.characs.items():
        if not isna(row.get("denominator")) or (pt is not None and i.pt(row) != pt):
            continue
        cs = [x.strip() for x in row["components"].split(",")]
        comps = [c for c in cs if c in i.comps]
        if len(cs) >= 2 and comps:
            return h, comps[0]
    return None


@mutation("cascade.not_nested", "reject", "cascadeNotNested", cls="InvalidCascade")
def _m(spec, r):
    i = Info(spec)
    np_ = _nested_pair(i)
    if np_ is None:
        return False
    big, small = np_
    spec["cascades"] = (spec.get("cascades") or []) + [{"name": "Mutant cascade", "stages": [["Small", small], ["Big", big]]}]
    return True


@mutation("cascade.undefined_constituent", "reject", "cascadeUndefined")
def _m(spec, r):
    i = Info(spec)
    np_ = _nested_pair(i)
    if np_ is None:
        return False
    spec["cascades"] = (spec.get("cascades") or []) + [{"name": "Mutant cascade", "stages": [["Big", np_[0]], ["Small", r.choice(["zzundef", np_[1] + ",zzundef", pick(r, list(i.pars)) or "zzundef"])]]}]
    return True


@mutation("cascade.empty_stage", "reject", "cascadeEmpty")
def _m(spec, r):
    i = Info(spec)
    np_ = _nested_pair(i)
    if np_ is None:
        return False
    spec["cascades"] = (spec.get("cascades") or []) + [{"name": "Mutant cascade", "stages": [["Big", np_[0]], ["Small", None]]}]
    return True


@mutation("cascade.name_is_code_name", "reject", "cascadeNameCode")
def _m(spec, r):
    i = Info(spec)
    np_ = _nested_pair(i)
    if np_ is None:
        return False
    spec["cascades"] = (spec.get("cascades") or []) + [{"name": pick(r, list(i.comps) + list(i.pars)), "stages": [["Big", np_[0]], ["Small", np_[1]]]}]
    return True


@mutation("cascade.name_is_display_name", "reject", "cascadeNameDisplay")
def _m(spec, r):
    i = Info(spec)
    np_ = _nested_pair(i)
    if np_ is None:
        return False
    codes = set(i.comps) | set(i.characs) | set(i.pars) | set(i.inters) | set(i.pts)
    name = pick(r, [c["display"] for c in spec["comps"] if isinstance(c.get("display"), str) and c["display"].strip() not in codes])
    if name is None:
        return False
    spec["cascades"] = (spec.get("cascades") or []) + [{"name": name, "stages": [["Big", np_[0]], ["Small", np_[1]]]}]
    return True


@mutation("cascade.name_reserved", "reject", "cascadeKeyword")
def _m(spec, r):
    i = Info(spec)
    np_ = _nested_pair(i)
    if np_ is None:
        return False
    spec["cascades"] = (spec.get("cascades") or []) + [{"name": r.choice(["all", "total", "t"]), "stages": [["Big", np_[0]], ["Small", np_[1]]]}]
    return True


@mutation("cascade.stage_reserved", "reject", "stageKeyword")
def _m(spec, r):
    i = Info(spec)
    np_ = _nested_pair(i)
    if np_ is None:
        return False
    spec["cascades"] = (spec.get("cascades") or []) + [{"name": "Mutant cascade", "stages": [["Big", np_[0]], [r.choice(["all", "total", "flow"]), np_[1]]]}]
    return True


@mutation("cascade.duplicate_name", "reject", "cascadeDuplicate")
def _m(spec, r):
    i = Info(spec)
    np_ = _nested_pair(i)
    if np_ is None:
        return False
    c = {"name": "Mutant cascade", "stages": [["Big", np_[0]], ["Small", np_[1]]]}
    spec["cascades"] = (spec.get("cascades") or []) + [c, copy.deepcopy(c)]
    return True


@mutation("cascade.stage_with_denominator", "reject", "cascadeStageDenominator", cls="InvalidCascade")
def _m(spec, r):
    i = Info(spec)
    d = pick(r, [h for h in i.characs if not isna(i.characs[h].get("denominator"))])
    if d is None:
        return False
    big = [x.strip() for x in i.characs[d]["components"].split(",")]
    spec["cascades"] = (spec.get("cascades") or []) + [{"name": "Mutant cascade", "stages": [["All of them", ",".join(big)], ["As a fraction", d]]}]
    return True


@mutation("cascade.stage_counts_twice", "reject", "cascadeStageDuplicate", cls="InvalidCascade")
def _m(spec, r):
    i = Info(spec)
    np_ = _nested_pair(i)
    if np_ is None:
        return False
    spec["cascades"] = (spec.get("cascades") or []) + [{"name": "Mutant cascade", "stages": [["Big", np_[0]], ["Small twice", np_[1] + "," + np_[1]]]}]
    return True


@mutation("cascade.spans_population_types", "reject", "cascadePopTypes", cls="InvalidCascade")
def _m(spec, r):
    i = Info(spec)
    if len(i.pts) < 2:
        return False
    a = _nested_pair(i, i.pts[0])
    b2 = pick(r, i.of_kind("normal", i.pts[1]))
    if a is None or b2 is None:
        return False
    spec["cascades"] = (spec.get("cascades") or []) + [{"name": "Mutant cascade", "stages": [["Both", a[0] + "," + b2], ["One", a[1]]]}]
    return True


# ----------------------------------------------------------------------------------------------
# rule level: population types
# ----------------------------------------------------------------------------------------------
@mutation("poptype.matrix_unknown", "reject", "matPopType")
def _m(spec, r):
    if not spec.get("transitions"):
        return False
    pick(r, spec["transitions"])["poptype"] = "zzpt"
    return True


@mutation("poptype.parameter_unknown", "reject", "parPopType")
def _m(spec, r):
    i = Info(spec)
    p = i.new_par("ptx", None)
    _ensure(spec, "pars", "poptype")
    i.pars[p]["poptype"] = "zzpt"
    return True


@mutation("poptype.interaction_unknown", "reject", "interPopType")
def _m(spec, r):
    i = Info(spec)
    spec.setdefault("interactions", []).append({"code": i.fresh("zw"), "display": i.fresh_display("Mutant weights"), r.choice(["from", "to"]): "zzpt"})
    return True


@mutation("poptype.matrix_compartment_other_type", "reject", "matCompPopType")
def _m(spec, r):
    i = Info(spec)
    if len(i.pts) < 2 or len(spec["transitions"]) < 2:
        return False
    other = pick(r, [c for c in i.comps if c not in spec["transitions"][0]["comps"]])
    if other is None:
        return False
    spec["transitions"][0]["comps"].append(other)
    return True


@mutation("poptype.matrix_parameter_other_type", "reject", "linkParPopType")
def _m(spec, r):
    i = Info(spec)
    if len(i.pts) < 2:
        return False
    l = pick(r, [l for l in i.links if l[3] != [">"] and i.pt(i.comps[l[1]]) == i.pts[0] and i.kind(l[1]) == "normal"])
    if l is None:
        return False
    q = i.new_par("ptb", "rate", pt=i.pts[1])
    i.cell(l[0], l[1], l[2], q)
    return True


@mutation("poptype.component_other_type", "reject", "componentPopType")
def _m(spec, r):
    i = Info(spec)
    if len(i.pts) < 2:
        return False
    h = pick(r, [h for h in i.characs if i.pt(i.characs[h]) == i.pts[0]])
    c = pick(r, i.of_kind("normal", i.pts[1]))
    if h is None or c is None:
        return False
    i.characs[h]["components"] = i.characs[h]["components"] + "," + c
    return True


@mutation("poptype.function_crosses_types", "reject", "depCrossPop")
def _m(spec, r):
    i = Info(spec)
    if len(i.pts) < 2:
        return False
    c = pick(r, i.of_kind("normal", i.pts[0]))
    if c is None:
        return False
    i.new_par("xdep", None, pt=i.pts[1], page=None, default=None, function="2*%s" % c)
    return True


@mutation("poptype.interaction_to_mismatch", "reject", "depInteractionTo")
def _m(spec, r):
    i = Info(spec)
    if len(i.pts) < 2:
        return False
    q = pick(r, [p for p in i.pars if i.pt(i.pars[p]) == i.pts[0] and isna(i.pars[p].get("function"))])
    if q is None:
        return False
    w = i.fresh("zw")
    spec.setdefault("interactions", []).append({"code": w, "display": i.fresh_display("Mutant weights"), "from": i.pts[0], "to": i.pts[1]})
    i.new_par("xto", None, pt=i.pts[0], page=None, default=None, function="SRC_POP_AVG(%s,%s)" % (q, w))
    return True


@mutation("poptype.interaction_from_mismatch", "reject", "depInteractionFrom")
def _m(spec, r):
    i = Info(spec)
    if len(i.pts) < 2:
        return False
    q = pick(r, [p for p in i.pars if i.pt(i.pars[p]) == i.pts[1] and isna(i.pars[p].get("function"))])
    if q is None:
        return False
    w = i.fresh("zw")
    spec.setdefault("interactions", []).append({"code": w, "display": i.fresh_display("Mutant weights"), "from": i.pts[0], "to": i.pts[1]})
    i.new_par("xfrom", None, pt=i.pts[1], page=None, default=None, function="SRC_POP_AVG(%s,%s)" % (q, w))
    return True


@mutation("poptype.interaction_directed_tgt", "reject", "depInteractionDirected")
def _m(spec, r):
    i = Info(spec)
    if len(i.pts) < 2:
        return False
    q = pick(r, [p for p in i.pars if i.pt(i.pars[p]) == i.pts[0] and isna(i.pars[p].get("function"))])
    if q is None:
        return False
    w = i.fresh("zw")
    spec.setdefault("interactions", []).append({"code": w, "display": i.fresh_display("Mutant weights"), "from": i.pts[0], "to": i.pts[1]})
    i.new_par("xtgt", None, pt=i.pts[1], page=None, default=None, function="TGT_POP_AVG(%s,%s)" % (q, w))
    return True


# ----------------------------------------------------------------------------------------------
# verdict-preserving mutations (must stay accepted and runnable)
# ----------------------------------------------------------------------------------------------
@mutation("accept.format_capitalised", "accept", model=True)
def _m(spec, r):
    i = Info(spec)
    p = pick(r, [p for p in i.pars if isinstance(i.pars[p].get("format"), str) and i.pars[p]["format"] in ("probability", "rate", "duration", "number", "proportion")])
    if p is None:
        return False
    i.pars[p]["format"] = r.choice([i.pars[p]["format"].capitalize(), i.pars[p]["format"].upper(), " " + i.pars[p]["format"] + " "])
    return True


@mutation("accept.default_zero_without_page", "accept", model=True)
def _m(spec, r):
    i = Info(spec)
    c = pick(r, [c for c in i.of_kind("normal") if isna(i.comps[c].get("page")) and isna(i.comps[c].get("default"))])
    if c is None:
        return False
    i.comps[c]["default"] = 0
    return True


@mutation("accept.components_whitespace", "accept", model=True)
def _m(spec, r):
    h = pick(r, spec["characs"])
    if h is None or not isinstance(h.get("components"), str):
        return False
    h["components"] = "  " + " ,  ".join(x.strip() for x in h["components"].split(",")) + " "
    return True


@mutation("accept.new_databook_parameter", "accept", model=True)
def _m(spec, r):
    i = Info(spec)
    fmt = r.choice([None, "probability", "number", "per year"])
    i.new_par("extra", fmt, timescale=r.choice([None, 1]) if fmt in ("probability", "number") else None)
    return True


@mutation("accept.new_link", "accept", model=True)
def _m(spec, r):
    i = Info(spec)
    f = _free_cell(i, spec, r, "normal", "normal")
    if f is None:
        return False
    # not out of / into a duration group touching junction rules: plain rate between two normal compartments
    if any(x in i.pars and i.timed(x) for l in i.links if l[1] in (f[1], f[2]) for x in l[3]):
        return False
    p = i.new_par("move", r.choice(["rate", "probability", "duration", "number"]), pt=i.pt(i.comps[f[1]]))
    i.set_cell(f[0], f[1], f[2], p)
    return True


def apply(mid_or_entry, spec, r):
    """Apply a catalogue entry to a deep copy of the spec; returns the mutated spec or None when not applicable."""
    e = mid_or_entry if isinstance(mid_or_entry, dict) else next(x for x in CATALOGUE if x["id"] == mid_or_entry)
    s = copy.deepcopy(spec)
    try:
        ok = e["fn"](s, r)
    except (KeyError, AttributeError, TypeError, IndexError, ValueError):
        return None
    return s if ok else None


# ----------------------------------------------------------------------------------------------
# reading a framework .xlsx into a spec (library files)
# ----------------------------------------------------------------------------------------------
def spec_from_xlsx(path) -> dict:
    import openpyxl

    wb = openpyxl.load_workbook(str(path), read_only=True, data_only=True)
    spec = {"poptypes": None, "pages": None, "comps": [], "characs": [], "interactions": [], "pars": [], "transitions": [], "cascades": None, "other_sheets": {}}
    for ws in wb.worksheets:
        title = ws.title.lower()
        rows = []
        for row in ws.iter_rows(values_only=True):
            vals = [v.strip() if isinstance(v, str) else v for v in row]
            if vals and isinstance(vals[0], str) and vals[0].startswith("#ignore"):
                continue
            # '#ignore' after the first column: rest of the row is dropped
            for j, v in enumerate(vals):
                if isinstance(v, str) and v.startswith("#ignore"):
                    vals = vals[:j] + [None] * (len(vals) - j)
                    break
            rows.append(vals)
        tables, cur = [], []
        for vals in rows:
            if any((bool(v) if isinstance(v, str) else v is not None) for v in vals):
                cur.append(vals)
            elif cur:
                tables.append(cur)
                cur = []
        if cur:
            tables.append(cur)
        if not tables:
            spec["other_sheets"][title] = []
            continue

        def trim(tab):
            w = max((max([j for j, v in enumerate(rw) if v is not None and v != ""] + [-1]) for rw in tab)) + 1
            keep = [j for j in range(w) if any(rw[j] is not None and rw[j] != "" for rw in tab if j < len(rw))]
            return [[(rw[j] if j < len(rw) else None) for j in keep] for rw in tab]

        if title in SHEET_KEY:
            merged = trim([tables[0][0]] + [rw for t in tables for rw in (t[1:] if t is tables[0] else t)])
            head = [str(h).lower() if h is not None else None for h in merged[0]]
            out = []
            for rw in merged[1:]:
                d = {}
                for h, v in zip(head, rw):
                    if h in KEY_OF[title]:
                        d[KEY_OF[title][h]] = v
                    elif h is not None:
                        d["@" + h] = v
                out.append(d)
            # every row carries every column that exists in the sheet
            keys = [KEY_OF[title][h] if h in KEY_OF[title] else "@" + h for h in head if h is not None]
            for d in out:
                for k in keys:
                    d.setdefault(k, None)
            spec[SHEET_KEY[title]] = out
            if not out:
                spec["other_sheets"][title] = [merged]
        elif title == "population types":
            t = trim([tables[0][0]] + [rw for tt in tables for rw in (tt[1:] if tt is tables[0] else tt)])
            head = [str(h).lower() for h in t[0]]
            ci, di = head.index("code name"), (head.index("description") if "description" in head else None)
            spec["poptypes"] = [[rw[ci], rw[di] if di is not None else rw[ci]] for rw in t[1:]]
        elif title == "databook pages":
            t = trim([tables[0][0]] + [rw for tt in tables for rw in (tt[1:] if tt is tables[0] else tt)])
            head = [str(h).lower() for h in t[0]]
            if "datasheet code name" in head and "datasheet title" in head:
                spec["pages"] = [[rw[head.index("datasheet code name")], rw[head.index("datasheet title")]] for rw in t[1:]]
            else:
                spec["other_sheets"][title] = [t]
        elif title == "transitions":
            for tab in tables:
                tab = trim(tab)
                names = [v for v in tab[0][1:]]
                cells = []
                for rw in tab[1:]:
                    for j, v in enumerate(rw[1:]):
                        if v is not None and v != "":
                            cells.append([rw[0], names[j], v])
                spec["transitions"].append({"poptype": tab[0][0], "comps": names, "rows": [rw[0] for rw in tab[1:]], "cells": cells})
        elif title == "cascades":
            cas = []
            for tab in tables:
                tab = trim(tab)
                head = [str(h).lower() if j else h for j, h in enumerate(tab[0])]
                ci = head.index("constituents") if "constituents" in head else 1
                cas.append({"name": tab[0][0], "stages": [[rw[0], rw[ci] if ci < len(rw) else None] for rw in tab[1:]]})
            spec["cascades"] = cas
        else:
            spec["other_sheets"][title] = [trim(t) for t in tables]
    if not spec["interactions"]:
        spec.pop("interactions")
    return spec
