"""
vlib.c18books -- single-rule mutations of databooks and program books (property C18, mode E).

A base is a valid (framework, databook[, progbook]) triple: a library example, or a generated framework with the databook that
`ProjectData.new` writes, filled with valid numbers.  Every mutation has a known verdict (`reject` with the dedicated class
`InvalidDatabook` / `InvalidProgramBook`, or `accept` = loads, validates and runs).

Mutations work on the *flattened* workbook (formulas replaced by their cached values, as atomica itself reads the file with
`data_only=True`), so that editing and saving with openpyxl does not lose the cross-sheet references.
"""
from __future__ import annotations

import io

import numpy as np

DB_CATALOGUE = []
PB_CATALOGUE = []


def db(mid, expect):
    def deco(f):
        DB_CATALOGUE.append({"id": mid, "fn": f, "expect": expect})
        return f

    return deco


def pb(mid, expect):
    def deco(f):
        PB_CATALOGUE.append({"id": mid, "fn": f, "expect": expect})
        return f

    return deco


def flatten(ss):
    import openpyxl
    from openpyxl.formatting.formatting import ConditionalFormattingList

    wb = openpyxl.load_workbook(io.BytesIO(ss.blob), data_only=True)
    for ws in wb.worksheets:
        # the conditional formats / validations of the writers are irrelevant for reading and make saving quadratic
        ws.conditional_formatting = ConditionalFormattingList()
        ws.data_validations.dataValidation = []
    return wb


def unflatten(wb):
    import sciris as sc

    f = io.BytesIO()
    wb.save(f)
    f.seek(0)
    return sc.Spreadsheet(f)


def find_cell(wb, text, sheets=None, column=None):
    for ws in wb.worksheets:
        if sheets is not None and ws.title not in sheets:
            continue
        for row in ws.iter_rows():
            for c in row:
                if isinstance(c.value, str) and c.value.strip() == text and (column is None or c.column == column):
                    return ws, c
    return None


def header_cols(ws, row):
    """{lower-case heading: column index} and the list of year columns of a table header row"""
    heads, years = {}, []
    for c in ws[row]:
        if isinstance(c.value, str):
            heads[c.value.strip().lower()] = c.column
        elif isinstance(c.value, (int, float)) and c.column > 1:
            years.append(c.column)
    return heads, years


def table_rows(ws, row):
    """rows of the table below the header row `row` (until the first row whose first cell is empty)"""
    out = []
    r = row + 1
    while r <= ws.max_row and ws.cell(row=r, column=1).value not in (None, ""):
        out.append(r)
        r += 1
    return out


class Ctx:
    """what a mutation needs to know about the base"""

    def __init__(self, fw, data, r, progset=None):
        self.fw = fw
        self.data = data
        self.r = r
        self.progset = progset

    def spec(self, code):
        for df in (self.fw.comps, self.fw.characs, self.fw.pars):
            if code in df.index:
                return df.loc[code]
        return None

    def tdves(self, pred=lambda code, spec: True):
        out = []
        for code in self.data.tdve:
            sp = self.spec(code)
            if sp is not None and pred(code, sp):
                out.append(code)
        return out

    def required(self):
        return self.tdves(lambda c, s: not _isna(s["databook page"]) and not np.isfinite(_num(s["default value"])))

    def pick(self, l):
        l = list(l)
        return self.r.choice(l) if l else None


def _isna(x):
    return x is None or (isinstance(x, float) and x != x)


def _num(x):
    try:
        return float(x)
    except Exception:
        return float("nan")


# ----------------------------------------------------------------------------------------------
# databook mutations: fn(wb, cx) -> bool (applied)
# ----------------------------------------------------------------------------------------------
def _table(wb, cx, code):
    td = cx.data.tdve[code]
    hit = find_cell(wb, td.name, column=1)
    if hit is None:
        return None
    ws, c = hit
    heads, years = header_cols(ws, c.row)
    return ws, c.row, heads, years, table_rows(ws, c.row)


def _delete_table(ws, row, rows):
    for r in [row] + rows:
        for c in ws[r]:
            c.value = None


@db("tdve.delete_required", "reject")
def _m(wb, cx):
    code = cx.pick(cx.required())
    t = code and _table(wb, cx, code)
    if not t:
        return False
    _delete_table(t[0], t[1], t[4])
    return True


@db("tdve.delete_with_framework_default", "accept")
def _m(wb, cx):
    code = cx.pick(cx.tdves(lambda c, s: np.isfinite(_num(s["default value"])) and c in cx.fw.pars.index and s["timed"] != "y"))
    t = code and _table(wb, cx, code)
    if not t:
        return False
    _delete_table(t[0], t[1], t[4])
    return True


@db("values.blank", "reject")
def _m(wb, cx):
    code = cx.pick(cx.tdves())
    t = code and _table(wb, cx, code)
    if not t or not t[4]:
        return False
    ws, row, heads, years, rows = t
    r = cx.r.choice(rows)
    for col in years + [heads.get("constant"), heads.get("assumption")]:
        if col:
            ws.cell(row=r, column=col).value = None
    return True


@db("values.blank_beside_all_row", "reject")
def _m(wb, cx):
    """a table with a filled-in row "All" (the fallback for populations without a row of their own) AND an explicit population row whose values are left blank:
    the explicit row is what the model would use for that population, so its missing values must be reported"""
    cands = [c for c in cx.tdves() if not set(cx.data.tdve[c].ts.keys()) & {"all", "All"}]
    code = cx.pick(cands)
    t = code and _table(wb, cx, code)
    if not t or len(t[4]) < 2:
        return False
    ws, row, heads, years, rows = t
    ws.cell(row=rows[0], column=1).value = cx.r.choice(["All", "all"])
    for col in years + [heads.get("constant"), heads.get("assumption")]:
        if col:
            ws.cell(row=rows[-1], column=col).value = None
    return True


@db("units.wrong", "reject")
def _m(wb, cx):
    code = cx.pick(cx.tdves())
    t = code and _table(wb, cx, code)
    if not t or "units" not in t[2] or not t[4]:
        return False
    ws, row, heads, years, rows = t
    cell = ws.cell(row=cx.r.choice(rows), column=heads["units"])
    cur = (cell.value or "").strip().lower()
    new = cx.pick([u for u in ["Fraction", "Duration (years)", "Probability (per year)", "Number", "furlongs"] if u.lower().split()[0] != (cur.split() or [""])[0]])
    cell.value = new
    return True


@db("units.blank", "accept")
def _m(wb, cx):
    code = cx.pick(cx.tdves())
    t = code and _table(wb, cx, code)
    if not t or "units" not in t[2] or not t[4]:
        return False
    ws, row, heads, years, rows = t
    ws.cell(row=cx.r.choice(rows), column=heads["units"]).value = None
    return True


@db("units.case", "accept")
def _m(wb, cx):
    code = cx.pick(cx.tdves())
    t = code and _table(wb, cx, code)
    if not t or "units" not in t[2] or not t[4]:
        return False
    ws, row, heads, years, rows = t
    cell = ws.cell(row=cx.r.choice(rows), column=heads["units"])
    if not isinstance(cell.value, str):
        return False
    cell.value = cx.r.choice([cell.value.upper(), cell.value.lower(), "  " + cell.value + " "])
    return True


@db("population.row_missing", "reject")
def _m(wb, cx):
    cands = [c for c in cx.tdves() if not set(cx.data.tdve[c].ts.keys()) & {"all", "All"}]
    code = cx.pick(cands)
    t = code and _table(wb, cx, code)
    if not t or not t[4]:
        return False
    ws, row, heads, years, rows = t
    # removing a row in the middle would split the table: remove the last one
    for c in ws[rows[-1]]:
        c.value = None
    return True


@db("tdve.unknown_name", "reject")
def _m(wb, cx):
    code = cx.pick(cx.tdves())
    t = code and _table(wb, cx, code)
    if not t:
        return False
    t[0].cell(row=t[1], column=1).value = "Quantity that is not in the framework"
    return True


@db("tdve.duplicate_table", "reject")
def _m(wb, cx):
    code = cx.pick(cx.tdves())
    t = code and _table(wb, cx, code)
    if not t:
        return False
    ws, row, heads, years, rows = t
    n = ws.max_row + 2
    for k, r in enumerate([row] + rows):
        for c in ws[r]:
            ws.cell(row=n + k, column=c.column, value=c.value)
    return True


@db("cell.text_in_number", "reject")
def _m(wb, cx):
    code = cx.pick(cx.tdves())
    t = code and _table(wb, cx, code)
    if not t or not t[4]:
        return False
    ws, row, heads, years, rows = t
    col = cx.pick(years + [heads[h] for h in ("constant", "assumption", "uncertainty") if h in heads])
    if col is None:
        return False
    ws.cell(row=cx.r.choice(rows), column=col).value = cx.r.choice(["abc", "1,5", "n/a"])
    return True


@db("year.duplicate", "reject")
def _m(wb, cx):
    code = cx.pick([c for c in cx.tdves() if len(cx.data.tdve[c].tvec) >= 2])
    t = code and _table(wb, cx, code)
    if not t or len(t[3]) < 2:
        return False
    ws, row, heads, years, rows = t
    ws.cell(row=row, column=years[1]).value = ws.cell(row=row, column=years[0]).value
    return True


@db("timed.time_dependent_values", "reject")
def _m(wb, cx):
    code = cx.pick(cx.tdves(lambda c, s: c in cx.fw.pars.index and s["timed"] == "y"))
    t = code and _table(wb, cx, code)
    if not t or not t[4]:
        return False
    ws, row, heads, years, rows = t
    # a timed parameter is written without year columns: add two years with different values
    base = max([c.column for c in ws[row] if c.value is not None]) + 2
    ws.cell(row=row, column=base).value = 2000
    ws.cell(row=row, column=base + 1).value = 2001
    for r in rows:
        ws.cell(row=r, column=base).value = 1.0
        ws.cell(row=r, column=base + 1).value = 3.0
    return True


def _pop_reserved(v):
    def f(wb, cx):
        if "Population Definitions" not in wb.sheetnames:
            return False
        wb["Population Definitions"].cell(row=2, column=1).value = v
        return True

    return f


for _v in ["all", "All", "total", "t", "flow", "dt"]:
    db("population.reserved_name." + _v, "reject")(_pop_reserved(_v))


@db("population.name_is_code_name", "reject")
def _m(wb, cx):
    if "Population Definitions" not in wb.sheetnames:
        return False
    wb["Population Definitions"].cell(row=2, column=1).value = cx.pick(list(cx.fw.comps.index) + list(cx.fw.pars.index))
    return True


@db("population.name_is_code_name_without_page", "reject")
def _m(wb, cx):
    """a population named after a framework quantity that has NO databook page (a function parameter, a characteristic that is only reported, ...)"""
    if "Population Definitions" not in wb.sheetnames:
        return False
    cands = [c for df in (cx.fw.comps, cx.fw.characs, cx.fw.pars) for c in df.index if _isna(df.at[c, "databook page"])]
    name = cx.pick(cands)
    if name is None:
        return False
    wb["Population Definitions"].cell(row=2, column=1).value = name
    return True


@db("units.other_timescale", "reject")
def _m(wb, cx):
    """the units of a row name the right kind of quantity but another time scale than the framework's (per month instead of per year, ...)"""
    import re as _re

    cands = []
    for code in cx.tdves():
        t = _table(wb, cx, code)
        if not t or "units" not in t[2] or not t[4]:
            continue
        ws, row, heads, years, rows = t
        for r_ in rows:
            v = ws.cell(row=r_, column=heads["units"]).value
            if isinstance(v, str) and _re.search(r"\((per )?(year|years|month|months|week|weeks|day|days)\)", v.lower()):
                cands.append((ws, r_, heads["units"], v))
    pk = cx.pick(cands)
    if pk is None:
        return False
    ws, r_, col, v = pk
    m = _re.search(r"\((per )?(\w+)\)", v)
    per, unit = m.group(1) or "", m.group(2).lower()
    plural = unit.endswith("s")
    base = unit[:-1] if plural else unit
    other = cx.r.choice([u for u in ("year", "month", "week", "day") if u != base])
    ws.cell(row=r_, column=col).value = v[: m.start()] + "(" + per + other + ("s" if plural else "") + ")" + v[m.end():]
    return True


@db("population.type_unknown", "reject")
def _m(wb, cx):
    if "Population Definitions" not in wb.sheetnames:
        return False
    ws = wb["Population Definitions"]
    heads, _ = header_cols(ws, 1)
    col = heads.get("population type", 3)
    ws.cell(row=1, column=col).value = "Population type"
    ws.cell(row=2, column=col).value = "zzpt"
    return True


@db("sheet.drop_population_definitions", "reject")
def _m(wb, cx):
    if "Population Definitions" not in wb.sheetnames:
        return False
    wb.remove(wb["Population Definitions"])
    return True


@db("interaction.missing", "reject")
def _m(wb, cx):
    if not len(cx.fw.interactions.index) or "Interactions" not in wb.sheetnames:
        return False
    wb.remove(wb["Interactions"])
    return True


@db("interaction.value_missing", "reject")
def _m(wb, cx):
    if not cx.data.interpops or "Interactions" not in wb.sheetnames:
        return False
    ws = wb["Interactions"]
    # time-dependent section: blank every number right of the 'Constant'/'Assumption' heading of the first interaction
    hit = None
    for row in ws.iter_rows():
        for c in row:
            if isinstance(c.value, str) and c.value.strip().lower() in ("constant", "assumption"):
                hit = c
                break
        if hit:
            break
    if hit is None:
        return False
    done = False
    r = hit.row + 1
    while r <= ws.max_row and ws.cell(row=r, column=1).value not in (None, ""):
        for c in ws[r]:
            if c.column >= hit.column and isinstance(c.value, (int, float)):
                c.value = None
                done = True
        r += 1
    return done


@db("workbook.wrong_category", "reject")
def _m(wb, cx):
    wb.properties.category = "atomica:progbook"
    return True


@db("sheet.ignored_extra", "accept")
def _m(wb, cx):
    ws = wb.create_sheet("#ignore notes")
    ws.cell(row=1, column=1).value = "free text"
    ws.cell(row=2, column=2).value = 17
    return True


@db("row.ignored_comment", "accept")
def _m(wb, cx):
    code = cx.pick(cx.tdves())
    t = code and _table(wb, cx, code)
    if not t or not t[4]:
        return False
    ws = t[0]
    n = ws.max_row + 2
    ws.cell(row=n, column=1).value = "#ignore this is a comment row"
    ws.cell(row=n, column=2).value = "anything"
    return True


# ----------------------------------------------------------------------------------------------
# program book mutations: fn(wb, cx) -> bool
# ----------------------------------------------------------------------------------------------
T, S, E = "Program targeting", "Spending data", "Program effects"


def _spend_tables(wb):
    """[(header row, {label: row})] of the spending sheet"""
    ws = wb[S]
    out = []
    r = 1
    while r <= ws.max_row:
        v = ws.cell(row=r, column=1).value
        if isinstance(v, str) and isinstance(ws.cell(row=r, column=2).value, str) and ws.cell(row=r, column=2).value.strip().lower() == "units":
            rows = {}
            k = r + 1
            while k <= ws.max_row and ws.cell(row=k, column=1).value not in (None, ""):
                rows[str(ws.cell(row=k, column=1).value).strip().lower()] = k
                k += 1
            out.append((r, rows))
            r = k
        else:
            r += 1
    return out


def _effect_tables(wb):
    ws = wb[E]
    out = []
    r = 1
    while r <= ws.max_row:
        v = ws.cell(row=r, column=1).value
        if isinstance(v, str) and isinstance(ws.cell(row=r, column=2).value, str) and ws.cell(row=r, column=2).value.strip().lower() == "baseline value":
            rows = []
            k = r + 1
            while k <= ws.max_row and ws.cell(row=k, column=1).value not in (None, ""):
                rows.append(k)
                k += 1
            out.append((r, rows))
            r = k
        else:
            r += 1
    return out


for _sheet in (T, S, E):
    def _mk(sheet):
        def f(wb, cx):
            if sheet not in wb.sheetnames:
                return False
            wb.remove(wb[sheet])
            return True
        return f
    pb("sheet.drop." + _sheet.split()[1], "reject")(_mk(_sheet))


def _named_all(v):
    def f(wb, cx):
        old = wb[T].cell(row=3, column=1).value
        if not isinstance(old, str):
            return False
        # rename the program everywhere (the spending and effects sheets refer to programs by name)
        for ws in wb.worksheets:
            for row in ws.iter_rows():
                for c in row:
                    if isinstance(c.value, str) and c.value.strip() == old.strip():
                        c.value = v
        return True

    return f


for _k, _v in enumerate(["all", "All", " ALL "]):
    pb("program.named_all.%d" % _k, "reject")(_named_all(_v))


@pb("program.duplicate_name", "reject")
def _m(wb, cx):
    ws = wb[T]
    if ws.cell(row=4, column=1).value in (None, ""):
        return False
    ws.cell(row=4, column=1).value = ws.cell(row=3, column=1).value
    return True


@pb("program.numeric_name", "reject")
def _m(wb, cx):
    wb[T].cell(row=3, column=1).value = 5
    return True


def _target_cols(wb):
    ws = wb[T]
    sup = {str(c.value).strip().lower(): c.column for c in ws[1] if isinstance(c.value, str)}
    p0, c0 = sup.get("targeted to (populations)"), sup.get("targeted to (compartments)")
    pops = [c.column for c in ws[2] if p0 and c0 and p0 <= c.column < c0 and c.value not in (None, "")]
    comps = [c.column for c in ws[2] if c0 and c.column >= c0 and c.value not in (None, "")]
    return pops, comps


def _is_y(v):
    return isinstance(v, str) and v.strip().lower() == "y"


@pb("targeting.unknown_compartment", "reject")
def _m(wb, cx):
    ws = wb[T]
    pops, comps = _target_cols(wb)
    used = [c for c in comps if any(_is_y(ws.cell(row=r, column=c).value) for r in range(3, ws.max_row + 1))]
    col = cx.pick(used)
    if col is None:
        return False
    ws.cell(row=2, column=col).value = "Compartment that does not exist"
    return True


@pb("targeting.unknown_population", "reject")
def _m(wb, cx):
    ws = wb[T]
    pops, comps = _target_cols(wb)
    used = [c for c in pops if any(_is_y(ws.cell(row=r, column=c).value) for r in range(3, ws.max_row + 1))]
    col = cx.pick(used)
    if col is None:
        return False
    ws.cell(row=2, column=col).value = "Population that does not exist"
    return True


@pb("targeting.no_compartments", "reject")
def _m(wb, cx):
    ws = wb[T]
    pops, comps = _target_cols(wb)
    if not comps:
        return False
    for c in comps:
        ws.cell(row=3, column=c).value = "N"
    return True


@pb("targeting.no_populations", "reject")
def _m(wb, cx):
    ws = wb[T]
    pops, comps = _target_cols(wb)
    if not pops:
        return False
    for c in pops:
        ws.cell(row=3, column=c).value = cx.r.choice(["N", None, "maybe"])
    return True


def _blank_row(ws, r):
    for c in ws[r]:
        if c.column >= 3 and isinstance(c.value, (int, float)):
            c.value = None


@pb("spending.no_unit_cost", "reject")
def _m(wb, cx):
    tabs = [t for t in _spend_tables(wb) if "unit cost" in t[1]]
    t = cx.pick(tabs)
    if t is None:
        return False
    _blank_row(wb[S], t[1]["unit cost"])
    return True


@pb("spending.no_spending", "reject")
def _m(wb, cx):
    tabs = [t for t in _spend_tables(wb) if "annual spend" in t[1] or "total spend" in t[1]]
    t = cx.pick(tabs)
    if t is None:
        return False
    _blank_row(wb[S], t[1].get("annual spend") or t[1].get("total spend"))
    return True


@pb("spending.mixed_currency", "reject")
def _m(wb, cx):
    tabs = [t for t in _spend_tables(wb) if "unit cost" in t[1]]
    t = cx.pick(tabs)
    if t is None:
        return False
    ws = wb[S]
    for lab in ("annual spend", "total spend", "unit cost"):
        if lab in t[1]:
            cell = ws.cell(row=t[1][lab], column=2)
            if isinstance(cell.value, str) and "/" in cell.value:
                cell.value = "EUR/" + cell.value.split("/", 1)[1]
    return True


@pb("spending.unknown_program", "reject")
def _m(wb, cx):
    t = cx.pick(_spend_tables(wb))
    if t is None:
        return False
    wb[S].cell(row=t[0], column=1).value = "Program that does not exist"
    return True


@pb("cell.text_in_number", "reject")
def _m(wb, cx):
    ws = wb[S]
    cells = [c for t in _spend_tables(wb) for r in t[1].values() for c in ws[r] if c.column >= 3 and isinstance(c.value, (int, float))]
    c = cx.pick(cells)
    if c is None:
        return False
    c.value = "lots"
    return True


@pb("effects.unknown_parameter", "reject")
def _m(wb, cx):
    t = cx.pick(_effect_tables(wb))
    if t is None:
        return False
    wb[E].cell(row=t[0], column=1).value = "Parameter that does not exist"
    return True


@pb("effects.unknown_population", "reject")
def _m(wb, cx):
    t = cx.pick([t for t in _effect_tables(wb) if t[1]])
    if t is None:
        return False
    wb[E].cell(row=cx.r.choice(t[1]), column=1).value = "Population that does not exist"
    return True


def _outcome_cells(wb):
    """(table header row, data row, column) of every program outcome entered"""
    ws = wb[E]
    out = []
    for (h, rows) in _effect_tables(wb):
        for r in rows:
            for c in ws[r]:
                if c.column >= 7 and isinstance(c.value, (int, float)) and isinstance(ws.cell(row=h, column=c.column).value, str):
                    out.append((h, r, c.column))
    return out


@pb("effects.unknown_program_heading", "reject")
def _m(wb, cx):
    oc = cx.pick(_outcome_cells(wb))
    if oc is None:
        return False
    wb[E].cell(row=oc[0], column=oc[2]).value = "Program that does not exist"
    return True


@pb("effects.outcome_without_baseline", "reject")
def _m(wb, cx):
    oc = cx.pick(_outcome_cells(wb))
    if oc is None:
        return False
    wb[E].cell(row=oc[1], column=2).value = None
    return True


@pb("effects.bad_coverage_interaction", "reject")
def _m(wb, cx):
    oc = cx.pick(_outcome_cells(wb))
    if oc is None:
        return False
    wb[E].cell(row=oc[1], column=3).value = cx.r.choice(["foo", "multiplicative"])
    return True


@pb("workbook.wrong_category", "reject")
def _m(wb, cx):
    wb.properties.category = "atomica:databook"
    return True


@pb("accept.interaction_case", "accept")
def _m(wb, cx):
    oc = cx.pick(_outcome_cells(wb))
    if oc is None:
        return False
    cell = wb[E].cell(row=oc[1], column=3)
    if not isinstance(cell.value, str):
        return False
    cell.value = cell.value.upper()
    return True
