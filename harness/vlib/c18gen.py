"""
vlib.c18gen -- in-memory framework builder, generator of valid frameworks and the abstract description sent to the
Lean rule model (property C18).

A framework *spec* is a plain JSON-able dict (so that every case replays exactly):

    poptypes      : None (no sheet) | [[code, description], ...]
    pages         : None (no sheet) | [[code, title], ...]
    comps         : [ {code, display, source, sink, junction, page, default, sw, calibrate, poptype} ]
    characs       : [ {code, display, components (str), denominator, page, default, sw, calibrate, poptype} ]
    interactions  : [ {code, display, from, to, default} ]
    pars          : [ {code, display, format, timescale, timed, derivative, targetable, page, default, function, poptype, min, max} ]
    transitions   : [ {poptype (None | str), comps [names], cells [[from, to, "p1,p2" | ">"] ...]} ]
    cascades      : None | [ {name, stages [[stage name, "a,b"], ...]} ]
    drop          : {sheet: [column, ...]}      columns deleted after building (mutations)
    drop_sheets   : [sheet, ...]
    extra_cols    : {sheet: {column: value}}    constant extra columns (e.g. a blank optional column)

`None` (JSON null) in a cell is an empty spreadsheet cell.  A key that is absent from *every* row of a sheet means the column is
absent from the sheet.
"""
from __future__ import annotations

import copy
import random
import re

import numpy as np
import pandas as pd

COMP_COLS = [("code", "code name"), ("display", "display name"), ("source", "is source"), ("sink", "is sink"), ("junction", "is junction"), ("page", "databook page"), ("default", "default value"),
             ("sw", "setup weight"), ("calibrate", "calibrate"), ("poptype", "population type"), ("order", "databook order"), ("guidance", "guidance")]
CHARAC_COLS = [("code", "code name"), ("display", "display name"), ("components", "components"), ("denominator", "denominator"), ("page", "databook page"), ("default", "default value"),
               ("sw", "setup weight"), ("calibrate", "calibrate"), ("poptype", "population type"), ("order", "databook order"), ("guidance", "guidance")]
INTER_COLS = [("code", "code name"), ("display", "display name"), ("from", "from population type"), ("to", "to population type"), ("default", "default value")]
PAR_COLS = [("code", "code name"), ("display", "display name"), ("format", "format"), ("timescale", "timescale"), ("timed", "timed"), ("derivative", "is derivative"), ("targetable", "targetable"),
            ("page", "databook page"), ("default", "default value"), ("function", "function"), ("poptype", "population type"), ("min", "minimum value"), ("max", "maximum value"),
            ("calibrate", "calibrate"), ("order", "databook order"), ("guidance", "guidance")]
SHEET_COLS = {"compartments": COMP_COLS, "characteristics": CHARAC_COLS, "interactions": INTER_COLS, "parameters": PAR_COLS}
SHEET_KEY = {"compartments": "comps", "characteristics": "characs", "interactions": "interactions", "parameters": "pars"}

RESERVED_SYMBOLS = set(":,;/+-*'\" @")
SUPPORTED_FUNCTIONS = ["max", "min", "exp", "floor", "SRC_POP_AVG", "TGT_POP_AVG", "SRC_POP_SUM", "TGT_POP_SUM", "STITCH_AVG", "STITCH_SUM", "pi", "cos", "sin", "sqrt", "ln", "rand", "randn", "sdiv"]
RESERVED_KEYWORDS = ["t", "flow", "all", "dt", "total"] + SUPPORTED_FUNCTIONS
STANDARD_UNITS = ["probability", "duration", "number", "fraction", "proportion", "rate"]
TRANSITION_FORMATS = ["number", "probability", "rate", "duration", "proportion"]


def _raw_table(rows: list, cols: list) -> list:
    """Rows (dicts keyed by short names) -> list of spreadsheet rows (header first); a column exists iff some row has the key."""
    present = [(k, c) for (k, c) in cols if any(k in r for r in rows)]
    seen = {k for k, _ in present}
    for r in rows:  # columns of a file that are not part of the layout are passed through ('@heading')
        for k in r:
            if k.startswith("@") and k not in seen:
                seen.add(k)
                present.append((k, k[1:]))
    if not rows:
        present = cols[:2]
    return [[c for _, c in present]] + [[r.get(k) for (k, _) in present] for r in rows]


def raw_sheets(spec: dict) -> dict:
    """The spreadsheet content of a spec: {sheet title: [table, ...]}, table = list of rows, first row = headings."""
    sheets = {}
    sheets["about"] = [[["name", "description"], ["Generated", "generated framework"]]]
    for title, tables in (spec.get("other_sheets") or {}).items():
        sheets[title] = copy.deepcopy(tables)
    if spec.get("poptypes") is not None:
        sheets["population types"] = [[["code name", "description"]] + [list(p) for p in spec["poptypes"]]]
    if spec.get("pages") is not None:
        sheets["databook pages"] = [[["datasheet code name", "datasheet title"]] + [list(p) for p in spec["pages"]]]
    for sheet, key in SHEET_KEY.items():
        if key == "interactions" and not spec.get(key):
            continue
        if not spec.get(key) and sheet in sheets:
            continue  # a sheet of a library file that has headings only: passed through unchanged
        sheets[sheet] = [_raw_table(spec.get(key, []), SHEET_COLS[sheet])]
    mats = []
    for tr in spec.get("transitions", []):
        names = list(tr["comps"])
        rows = list(tr.get("rows") or names)
        for n in names:  # compartments appended by a mutation get a row as well (unless the mutation wants a column only)
            if n not in rows and "rows" in tr and n not in (tr.get("rows") or []) and n not in (tr.get("cols_only") or []):
                rows.append(n)
        m = [[tr.get("poptype")] + names] + [[n] + [None] * len(names) for n in rows]
        for (a, c, s) in tr["cells"]:
            if a in rows and c in names:
                m[1 + rows.index(a)][1 + names.index(c)] = s
        mats.append(m)
    if mats or "transitions" in (spec.get("empty_sheets") or []):
        sheets["transitions"] = mats
    if spec.get("cascades") is not None:
        sheets["cascades"] = [[[c["name"], "constituents"]] + [[s[0], s[1]] for s in c["stages"]] for c in spec["cascades"]]
    for sheet, colvals in (spec.get("extra_cols") or {}).items():
        for tab in sheets.get(sheet, []):
            for col, val in colvals.items():
                if col in tab[0]:
                    j = tab[0].index(col)
                    for r in tab[1:]:
                        r[j] = val
                else:
                    tab[0].append(col)
                    for r in tab[1:]:
                        r.append(val)
    for sheet, cols in (spec.get("drop") or {}).items():
        for tab in sheets.get(sheet, []):
            for col in cols:
                if col in tab[0]:
                    j = tab[0].index(col)
                    for r in tab:
                        del r[j]
    for sheet in spec.get("drop_sheets") or []:
        sheets.pop(sheet, None)
    return sheets


MERGE = {"databook pages", "compartments", "parameters", "characteristics", "interactions", "plots", "population types"}


def _frames_like_read_dataframes(tables: list, title: str) -> list:
    """What excel.read_dataframes + ProjectFramework.__init__ make of these tables (strings stripped, all-empty columns dropped)."""
    if title in MERGE and tables:
        tables = [tables[0] + [r for t in tables[1:] for r in t]]
    dfs = []
    for tab in tables:
        w = max(len(r) for r in tab)
        content = np.empty((len(tab), w), dtype="object")
        for i, r in enumerate(tab):
            for j, v in enumerate(r):
                content[i, j] = v.strip() if isinstance(v, str) else v
        keep = [i for i in range(len(tab)) if any((bool(v) if isinstance(v, str) else v is not None) for v in content[i])]
        content = content[keep, :]
        if not len(content):
            continue
        df = pd.DataFrame(content)
        df.dropna(axis=1, how="all", inplace=True)
        df.columns = df.iloc[0]
        df = df[1:]
        if title == "cascades":
            df.columns = [df.columns[0]] + list(df.columns[1:].str.lower())
        elif title == "transitions":
            pass
        elif len(df.columns):
            df.columns = df.columns.str.lower()
        dfs.append(df)
    return dfs


def build(spec: dict):
    """Build an (unvalidated) ProjectFramework from a spec, the way ProjectFramework.__init__ leaves the sheets after reading Excel."""
    import atomica as at

    fw = at.ProjectFramework()
    for title, tables in raw_sheets(spec).items():
        fw.sheets[title] = _frames_like_read_dataframes(tables, title)
    return fw


def to_xlsx(spec: dict):
    """The same content as a real .xlsx (sc.Spreadsheet), to be read by ProjectFramework(spreadsheet)."""
    import io

    import openpyxl
    import sciris as sc

    wb = openpyxl.Workbook()
    wb.remove(wb.active)
    wb.properties.category = "atomica:framework"
    for title, tables in raw_sheets(spec).items():
        ws = wb.create_sheet(title.title())
        row = 1
        for tab in tables:
            for r in tab:
                for j, v in enumerate(r):
                    if v is not None:
                        ws.cell(row=row, column=j + 1, value=v)
                row += 1
            row += 1
    f = io.BytesIO()
    wb.save(f)
    f.seek(0)
    return sc.Spreadsheet(f)


# ----------------------------------------------------------------------------------------------
# abstract description for the Lean model (wire format, see lean/AtomicaModel/Rules.lean `handle`)
# ----------------------------------------------------------------------------------------------
def enc(s) -> str:
    """Percent-encode a name into one wire token ('-' is the empty marker so it is always escaped)."""
    if s is None:
        return "-"
    s = str(s)
    if s == "":
        return "%"
    return "".join(ch if (ch.isalnum() and ord(ch) < 128) or ch == "_" else "%%%02X" % ord(ch) if ord(ch) < 256 else "%FF" for ch in s)


def isna(x) -> bool:
    return x is None or (isinstance(x, float) and x != x)


def b(x) -> str:
    return "1" if x else "0"


class _Div(__import__("ast").NodeTransformer):
    """Same tree shape as atomica's `_DivTransformer` (division becomes a call of `sdiv`), so that dependencies are listed in the same order."""

    def visit_BinOp(self, node):
        import ast

        lhs = self.visit(node.left)
        rhs = self.visit(node.right)
        if not isinstance(node.op, ast.Div):
            node.left, node.right = lhs, rhs
            return node
        return ast.Call(ast.Name("sdiv", ast.Load()), [lhs, rhs], [])


def fn_parse(text: str):
    """(valid, deps): `valid` is False for a syntax error, a double underscore, an over-long string or a call of a function that is
    not whitelisted; deps are the identifiers that are not supported functions, in `ast.walk` order (`a:b` flows written `a___b`)."""
    import ast

    if "__" in text or len(text) >= 1800:
        return False, []
    try:
        tree = ast.parse(text.replace(":", "___"), mode="eval")
        tree = _Div().visit(tree)
    except Exception:
        return False, []
    deps = []
    for node in ast.walk(tree):
        if isinstance(node, ast.Name) and node.id not in SUPPORTED_FUNCTIONS:
            deps.append(node.id)
        elif isinstance(node, ast.Call) and not (isinstance(node.func, ast.Name) and node.func.id in SUPPORTED_FUNCTIONS):
            return False, []  # only calls of whitelisted names are function calls of the documented language
    return True, deps


def fn_abstract(text) -> str:
    if isna(text):
        return "-"
    if not isinstance(text, str):
        return "N"
    ok, names = fn_parse(text)
    if not ok:
        return "X"
    agg = "none"
    for k in ["SRC_POP_AVG", "TGT_POP_AVG", "SRC_POP_SUM", "TGT_POP_SUM"]:
        if text.startswith(k):
            agg = k
    first = "-"
    if agg != "none" and "(" in text:
        first = enc(text.split("(")[1].rstrip(")").split(",")[0].strip())
    deps = []
    for d in names:
        if d.endswith("___flow"):
            deps.append("pf:" + enc(d[: -len("___flow")]))
        elif "___" in d:
            parts = d.split("___")
            deps.append("cf:" + enc(parts[0] or None) + ":" + enc(parts[1] or None))
        else:
            deps.append("v:" + enc(d))
    return " ".join(["F", agg, first, str(len(deps))] + deps)


def _num(x) -> str:
    from vlib.core import q

    if isna(x):
        return "-"
    return q(x)


def _flag(x, default="n"):
    return (default if isna(x) else x) == "y"


def abstract(spec: dict) -> str:
    """The post-sanitation abstract framework (what `_validate_*` sees after `_sanitize_*`), as one request line."""
    pts = [p[0] for p in spec["poptypes"]] if spec.get("poptypes") is not None else ["default"]
    first = pts[0]
    t = ["rules", str(len(pts))] + [enc(p) for p in pts]

    def sw_of(r, is_comp):
        has = (not isna(r.get("page"))) or (not isna(r.get("default")))
        if is_comp:
            has = has and not _flag(r.get("source")) and not _flag(r.get("sink"))
        if isna(r.get("sw")):
            return "1" if has else "0"
        return _num(r["sw"])

    def cal_of(r, all_rows):
        if any("calibrate" in x for x in all_rows):
            return not isna(r.get("calibrate"))
        return not isna(r.get("page"))

    comps = spec.get("comps", [])
    t.append(str(len(comps)))
    for r in comps:
        t += [enc(r["code"]), enc(r["display"]), b(_flag(r.get("sink"))), b(_flag(r.get("source"))), b(_flag(r.get("junction"))), enc(first if isna(r.get("poptype")) else r["poptype"]),
              b(not isna(r.get("page"))), _num(r.get("default")), sw_of(r, True), b(cal_of(r, comps))]
    characs = spec.get("characs", [])
    t.append(str(len(characs)))
    for r in characs:
        cs = [c.strip() for c in r["components"].split(",")]
        t += [enc(r["code"]), enc(r["display"]), enc(first if isna(r.get("poptype")) else r["poptype"]), str(len(cs))] + [enc(c) for c in cs]
        t += [enc(None if isna(r.get("denominator")) else r["denominator"]), b(not isna(r.get("page"))), _num(r.get("default")), sw_of(r, False), b(cal_of(r, characs))]
    inter = spec.get("interactions", []) or []
    t.append(str(len(inter)))
    for r in inter:
        t += [enc(r["code"]), enc(r["display"]), enc(first if isna(r.get("from")) else r["from"]), enc(first if isna(r.get("to")) else r["to"])]
    pars = spec.get("pars", [])
    t.append(str(len(pars)))
    for r in pars:
        fmt = r.get("format")
        if isinstance(fmt, str):
            fmt = fmt.strip()
            if fmt.lower() in STANDARD_UNITS:
                fmt = fmt.lower()
        t += [enc(r["code"]), enc(r["display"]), enc(None if isna(fmt) else fmt), _num(r.get("timescale")), b(_flag(r.get("timed"))), b(_flag(r.get("derivative"))), b(_flag(r.get("targetable"))),
              b(not isna(r.get("page"))), enc(first if isna(r.get("poptype")) else r["poptype"]), fn_abstract(r.get("function"))]
    trs = spec.get("transitions", [])
    t.append(str(len(trs)))
    for tr in trs:
        pt = tr.get("poptype")
        if isna(pt) or str(pt).lower().strip() == "transition matrix":
            pt = first
        names = list(tr["comps"])
        rows = list(tr.get("rows") or names) + [n for n in names if "rows" in tr and n not in tr["rows"]]
        labels = rows + [n for n in names if n not in rows]
        t += [enc(pt), str(len(labels))] + [enc(n) for n in labels]
        # links in the implementation's iteration order: row by row, columns left to right
        cells = {(a, c): s for (a, c, s) in tr["cells"]}
        links = []
        for a in rows:
            for c in names:
                if (a, c) in cells and not isna(cells[(a, c)]):
                    s = cells[(a, c)]
                    if s.strip() == ">":
                        links.append((a, c, [">"]))
                    else:
                        links.append((a, c, [p.strip() for p in s.split(",")]))
        t.append(str(len(links)))
        for (a, c, ps) in links:
            t += [enc(a), enc(c), str(len(ps))] + [(">" if p == ">" else enc(p)) for p in ps]
    cas = spec.get("cascades")
    has_data = bool(cas) and any(len(c["stages"]) for c in cas)
    if not has_data:
        # fallback cascade: one stage per characteristic without denominator
        cas = [{"name": "Cascade", "stages": [[r["display"], r["code"]] for r in characs if isna(r.get("denominator"))]}]
    t.append(str(len(cas)))
    for c in cas:
        t += [enc(str(c["name"]).strip()), str(len(c["stages"]))]
        for (sn, cons) in c["stages"]:
            cl = [] if isna(cons) or cons == "" else [x for x in str(cons).split(",")]
            t += [enc(sn), str(len(cl))] + [enc(x.strip()) for x in cl]
    return " ".join(t)


# ----------------------------------------------------------------------------------------------
# databook filling ("valid numbers"): a consistent assignment of compartment sizes
# ----------------------------------------------------------------------------------------------
PAR_VALUE = {"probability": 0.1, "rate": 0.2, "duration": 2.0, "number": 5.0, "proportion": 0.5}


def fill_databook(fw, data, scale=1.0):
    """Fill every empty series of a ProjectData with valid, mutually consistent numbers."""
    import atomica as at

    val = {}
    for i, c in enumerate(fw.comps.index):
        r = fw.comps.loc[c]
        val[c] = 0.0 if (r["is junction"] == "y" or r["is source"] == "y" or r["is sink"] == "y") else 100.0 * (i + 1) * scale
        if c not in data.tdve and not pd.isna(r["default value"]):
            val[c] = float(r["default value"])  # not in the databook: initialised with the framework default (only 0 is permitted)

    def cval(name):
        if name in fw.comps.index:
            return val[name]
        v = sum(val[x] for x in fw.get_charac_includes(name))  # with multiplicity, as Characteristic.vals and the initialization count
        den = fw.characs.at[name, "denominator"]
        if not pd.isna(den):
            d = cval(den)
            return v / d if d else 0.0
        return v

    for name, td in data.tdve.items():
        for pop, ts in td.ts.items():
            if name in fw.comps.index or name in fw.characs.index:
                # framework default values are replaced: the sizes must be mutually consistent
                ts.t, ts.vals = [], []
                ts.assumption = cval(name)
            elif ts.has_data:
                continue
            else:
                ts.assumption = PAR_VALUE.get(fw.pars.at[name, "format"], 1.0)
    for tdc in data.transfers + data.interpops:
        for a in tdc.from_pops:
            for c in tdc.to_pops:
                if (a != c or tdc.type == "interaction") and (a, c) not in tdc.ts:
                    ts = at.TimeSeries(units=tdc.allowed_units[0])
                    ts.insert(None, 0.01 if tdc.type == "transfer" else 1.0)
                    tdc.ts[(a, c)] = ts


# ----------------------------------------------------------------------------------------------
# generator of valid frameworks
# ----------------------------------------------------------------------------------------------
COMP_POOL = ["sus", "inf", "rec", "vac", "lat", "act", "trt", "chr", "sev", "mld"]


def gen_valid(r) -> dict:
    """A structured, valid framework spec.  Boundary features are weighted up: no population-type sheet, missing optional columns,
    empty optional cells, fallback cascade, junction chains, residual links, duration groups (the timed parameter sometimes a constant
    function of a databook parameter), derivative and aggregated functions."""
    two = r.random() < 0.3
    if two:
        poptypes = [["pta", "Type A"], ["ptb", "Type B"]]
    else:
        poptypes = r.choice([None, None, [["default", "Default"]], [["hum", "Humans"]]])
    pts = [p[0] for p in poptypes] if poptypes else ["default"]
    spec = {"poptypes": poptypes, "pages": r.choice([None, None, [["sv", "State variables"], ["pp", "Parameters"]], [["sv", "State variables"]]]),
            "comps": [], "characs": [], "interactions": [], "pars": [], "transitions": [], "cascades": None}
    explicit_pt = two or r.random() < 0.3  # write the population type column
    with_sw = r.random() < 0.5  # write the setup weight column
    with_flags = r.random() < 0.8
    cascades = []
    fallback_ok = not two
    beta_of = {}
    for k, pt in enumerate(pts):
        sfx = "" if not two else "_" + "ab"[k]
        npool = r.sample(COMP_POOL, r.randint(2, 5))
        normal = [n + sfx for n in npool]
        sink = "dead" + sfx if r.random() < 0.7 else None
        source = "born" + sfx if r.random() < 0.5 else None
        njunc = r.choice([0, 0, 1, 1, 2])
        juncs = ["jn%d%s" % (i, sfx) for i in range(njunc)]
        timed = r.random() < 0.35 and len(normal) >= 3
        ptcell = (pt if (k > 0 or r.random() < 0.7) else None) if explicit_pt else "absent"

        def comp(code, disp, **kw):
            c = {"code": code, "display": disp}
            if with_flags or kw.get("source") or kw.get("sink") or kw.get("junction"):
                c.update(source=kw.get("source", "n"), sink=kw.get("sink", "n"), junction=kw.get("junction", "n"))
            c["page"] = kw.get("page")
            c["default"] = kw.get("default")
            if with_sw:
                c["sw"] = kw.get("sw")
            if ptcell != "absent":
                c["poptype"] = ptcell
            return c

        inbook = []
        for i, n in enumerate(normal):
            page = "sv" if (i == 0 or r.random() < 0.6) else None
            default = None
            if page is None and r.random() < 0.3:
                default = 0
            if page is not None and r.random() < 0.2:
                default = r.choice([0, 10, 250.5])
            sw = None
            if with_sw and page is not None and r.random() < 0.3:
                sw = r.choice([1, 0, 0.5])
            if page is not None:
                inbook.append(n)
            spec["comps"].append(comp(n, n.capitalize().replace("_", " ") + " people", page=page, default=default, sw=sw))
        for j in juncs:
            spec["comps"].append(comp(j, "Junction " + j, junction="y"))
        if source:
            spec["comps"].append(comp(source, "Births" + sfx.replace("_", " "), source="y"))
        if sink:
            spec["comps"].append(comp(sink, "Deaths" + sfx.replace("_", " "), sink="y"))

        # characteristics (nested in this order: all, grp, sub)
        def charac(code, disp, components, denominator=None, page=None, default=None, sw=None):
            c = {"code": code, "display": disp, "components": components, "denominator": denominator, "page": page, "default": default}
            if with_sw:
                c["sw"] = sw
            if ptcell != "absent":
                c["poptype"] = ptcell
            return c

        allc, grpc, subc, prevc = "alive" + sfx, "grp" + sfx, "sub" + sfx, "prev" + sfx
        sep = r.choice([",", ", ", " , "])
        spec["characs"].append(charac(allc, "Everybody" + sfx.replace("_", " "), sep.join(normal + (juncs[:1] if r.random() < 0.3 else [])), page="sv"))
        have_grp = len(normal) >= 3 and r.random() < 0.7
        spec["characs"].append(charac(subc, "Subgroup" + sfx.replace("_", " "), normal[0] if r.random() < 0.5 else sep.join(normal[:2][: len(normal) - 1] or normal[:1]), page=r.choice(["sv", None])))
        if have_grp:
            spec["characs"].insert(len(spec["characs"]) - 1, charac(grpc, "Group" + sfx.replace("_", " "), sep.join([subc, normal[-2]] if set(spec["characs"][-1]["components"].replace(" ", "").split(",")) <= set(normal[:-1]) else normal[:-1]), page=None))
            # keep nesting: grp must contain sub; use "sub, other" form
            spec["characs"][-2]["components"] = sep.join([subc] + [n for n in normal[:-1] if n not in spec["characs"][-1]["components"].replace(" ", "").split(",")][:2])
        den = r.choice([allc, inbook[0]])
        spec["characs"].append(charac(prevc, "Prevalence" + sfx.replace("_", " "), normal[0], denominator=den, page=r.choice(["sv", None]), sw=(0 if with_sw and r.random() < 0.3 else None)))
        if r.random() < 0.3:
            # a characteristic that breaks the nesting: only allowed together with explicit cascades
            spec["characs"].append(charac("odd" + sfx, "Odd ones" + sfx.replace("_", " "), sep.join([normal[-1], normal[0]]), page=None))
            fallback_ok = False

        # parameters and transitions
        cells = {}

        def addcell(a, c, p):
            cells[(a, c)] = cells[(a, c)] + r.choice([",", ", "]) + p if (a, c) in cells else p

        def par(code, disp, fmt, **kw):
            p = {"code": code, "display": disp, "format": fmt, "page": kw.get("page"), "default": kw.get("default"), "function": kw.get("function")}
            for key in ("timescale", "timed", "derivative", "targetable", "min", "max"):
                if key in kw:
                    p[key] = kw[key]
            if ptcell != "absent":
                p["poptype"] = ptcell
            spec["pars"].append(p)
            return code

        beta = par("beta" + sfx, "Transmissibility" + sfx.replace("_", " "), r.choice([None, "probability", "Probability", "per contact"]), page="pp", default=r.choice([None, 0.5]), targetable=r.choice(["y", "n", None]))
        beta_of[pt] = beta
        gamma = par("cont" + sfx, "Contacts" + sfx.replace("_", " "), r.choice([None, "number"]), page="pp", default=r.choice([None, 20]))
        foi = par("foi" + sfx, "Force of infection" + sfx.replace("_", " "), r.choice(["probability", "rate"]), function=r.choice(["%s*%s*%s" % (prevc, beta, gamma), "1-(1-%s*%s)**floor(%s)" % (prevc, beta, gamma), "min(1, %s*%s/max(1,%s))" % (beta, normal[0], allc), "%s*%s + 0*t + 0*dt" % (beta, prevc)]),
                  timescale=r.choice([None, 1, 0.5]))
        addcell(normal[0], normal[1], foi)
        timed_par = None
        group = []
        for i in range(1, len(normal) - 1):
            fmt = r.choice(["probability", "rate", "duration", "Rate", "Duration "])
            p = par("r%d%s" % (i, sfx), "Progression %d%s" % (i, sfx.replace("_", " ")), fmt, page="pp", default=r.choice([None, 0.3]), timescale=r.choice([None, None, 1, 0.25, 1 / 12, 7]), targetable=r.choice(["y", "n"]))
            addcell(normal[i], normal[i + 1], p)
        if len(normal) >= 3 and r.random() < 0.5:
            addcell(normal[-1], normal[0], par("wane" + sfx, "Waning" + sfx.replace("_", " "), "duration", page="pp", default=2, timescale=r.choice([None, 1])))
        if timed:
            # a duration group: normal[1] (and maybe normal[2]) flush into normal[0] after `tdur`
            timed_par = par("tdur" + sfx, "Protected duration" + sfx.replace("_", " "), "duration", page="pp", default=r.choice([None, 1.5]), timed="y", targetable="n")
            group = [normal[1]] + ([normal[2]] if r.random() < 0.5 and (normal[2], normal[0]) not in cells else [])
            for gcomp in group:
                if (gcomp, normal[0]) in cells:
                    group = [x for x in group if x != gcomp]
                    continue
                addcell(gcomp, normal[0], timed_par)
            if not group:
                spec["pars"].pop()
                timed_par = None
            else:
                # sometimes the duration is a CONSTANT function of a databook parameter (`2*tbase`): accepted, and it must build and run.
                # The decision comes from a side stream derived from the generator state, so that every other choice of the seed is unchanged.
                st = r.getstate()[1]
                r2 = random.Random(st[0] * 1000003 + st[624] * 31 + k)
                if r2.random() < 0.45:
                    tb = par("tbase" + sfx, "Base duration" + sfx.replace("_", " "), "duration", page="pp", default=r2.choice([None, 1.0]))
                    tp = next(p for p in spec["pars"] if p["code"] == timed_par)
                    tp.update(function=r2.choice(["2*%s", "%s + 0.5", "max(%s, 1)", "%s*1.5 + 0*%s"]).replace("%s", tb), page=None, default=None)
        if sink:
            mort = par("mort" + sfx, "Death rate" + sfx.replace("_", " "), r.choice(["rate", "probability"]), page="pp", default=r.choice([None, 0.01]), timescale=r.choice([None, 1]), max=r.choice([None, 5]), min=r.choice([None, 0]))
            for n in normal:
                if r.random() < 0.8:
                    addcell(n, sink, mort)
            if r.random() < 0.4:
                addcell(normal[1], sink, par("xmort" + sfx, "Excess deaths" + sfx.replace("_", " "), "number", page="pp", default=r.choice([None, 3]), targetable="y"))
        if source:
            addcell(source, normal[0], par("births" + sfx, "Number of births" + sfx.replace("_", " "), r.choice(["number", "Number"]), page="pp", default=r.choice([None, 12]), timescale=r.choice([None, 1, 0.5])))
        free = [n for n in normal if n not in group]
        if juncs and len(free) >= 2:
            a = free[-1]
            addcell(a, juncs[0], par("tojn" + sfx, "Testing rate" + sfx.replace("_", " "), r.choice(["rate", "probability", "number"]), page="pp", default=r.choice([None, 0.2])))
            last = juncs[0]
            if len(juncs) == 2:
                addcell(juncs[0], juncs[1], par("pjj" + sfx, "Proportion retested" + sfx.replace("_", " "), "proportion", page="pp", default=0.25))
                if r.random() < 0.5:
                    addcell(juncs[0], free[0], ">")
                else:
                    addcell(juncs[0], free[0], par("pj0" + sfx, "Proportion returned" + sfx.replace("_", " "), "proportion", page="pp", default=0.75))
                last = juncs[1]
            outs = [n for n in free if n != a][:2] or [a]
            pp = par("pout" + sfx, "Proportion positive" + sfx.replace("_", " "), r.choice(["proportion", "Proportion"]), page="pp", default=r.choice([None, 0.4]), function=None)
            addcell(last, outs[0], pp)
            if len(outs) > 1:
                if r.random() < 0.5:
                    addcell(last, outs[1], ">")
                else:
                    addcell(last, outs[1], par("pneg" + sfx, "Proportion negative" + sfx.replace("_", " "), "proportion", function="1-%s" % pp))
        # non-transition function parameters
        aux = par("aux" + sfx, "Auxiliary" + sfx.replace("_", " "), None, function=r.choice(["%s + %s" % (beta, gamma), "exp(-%s)*sqrt(%s)" % (beta, gamma), "max(%s, %s, 1)" % (beta, gamma), "%s/%s" % (normal[0], allc)]))
        if r.random() < 0.6:
            par("aux2" + sfx, "Auxiliary two" + sfx.replace("_", " "), r.choice([None, "number"]), function=r.choice(["%s*2" % aux, "%s:%s + %s:flow" % (normal[0], normal[1], foi), "%s: + :%s" % (normal[0], normal[1]), "%s + %s" % (aux, foi)]))
        if r.random() < 0.4:
            par("acc" + sfx, "Accumulated" + sfx.replace("_", " "), None, page="pp", default=r.choice([None, 0]), derivative="y", function=r.choice(["acc%s*0.01 + %s" % (sfx, beta), "%s*%s" % (beta, normal[0]), "%s" % beta]))
        if r.random() < 0.5:
            w = "wgt" + sfx
            inter = {"code": w, "display": "Mixing" + sfx.replace("_", " "), "default": r.choice([None, 1])}
            if explicit_pt:
                inter.update({"from": ptcell, "to": ptcell})
            spec["interactions"].append(inter)
            par("agg" + sfx, "Aggregated" + sfx.replace("_", " "), None, function=r.choice(["SRC_POP_AVG(%s, %s)" % (beta, w), "TGT_POP_SUM(%s,%s)" % (prevc, w), "SRC_POP_AVG(%s,%s,%s)" % (aux, w, allc), "SRC_POP_SUM(%s)" % normal[0], "TGT_POP_AVG(%s)" % beta]))
        spec["transitions"].append({"poptype": r.choice([None, "Transition matrix"]) if (k == 0 and not two) else pt, "comps": [c["code"] for c in spec["comps"] if c["code"].endswith(sfx) or not two],
                                    "cells": [[a, c, s] for (a, c), s in cells.items()]})
        stages = [["Everyone" + sfx.replace("_", " "), allc]] + ([["Grouped" + sfx.replace("_", " "), grpc]] if have_grp else []) + [["Narrow" + sfx.replace("_", " "), r.choice([subc, spec["characs"][-1 if False else [c["code"] for c in spec["characs"]].index(subc)]["components"]])]]
        cascades.append({"name": "Care cascade" + sfx.replace("_", " "), "stages": stages})
    if two and r.random() < 0.6:
        # a cross-type interaction: from type A to type B, used by a type-B parameter aggregating a type-A quantity
        spec["interactions"].append({"code": "xw", "display": "Cross mixing", "from": pts[0], "to": pts[1], "default": r.choice([None, 1])})
        spec["pars"].append({"code": "xagg", "display": "Cross aggregate", "format": None, "page": None, "default": None, "function": "SRC_POP_AVG(%s, xw)" % beta_of[pts[0]], "poptype": pts[1]})
    if not spec["interactions"]:
        spec.pop("interactions")
    if not fallback_ok or r.random() < 0.6:
        spec["cascades"] = cascades
    return spec


# ----------------------------------------------------------------------------------------------
# accepted  =>  blank databook reads back  =>  filled databook builds and runs
# ----------------------------------------------------------------------------------------------
class ChainFailure(Exception):
    def __init__(self, stage, exc):
        super().__init__(f"{stage}: {type(exc).__name__}: {exc}")
        self.stage = stage
        self.exc = exc


def pops_for(fw, n=2):
    pts = list(fw.pop_types.keys())
    pops = {}
    for k, pt in enumerate(pts):
        for i in range(n if k == 0 else 1):
            pops["p%s%d" % ("abcdef"[k], i)] = {"label": "Pop %s%d" % ("ABCDEF"[k], i), "type": pt}
    return pops


def run_chain(fw, n_pops=2, transfers=1, years=(2000, 2001, 2002), end=2002.0, dt=0.25):
    """The second half of C18 on an accepted framework.  Returns the Result; raises ChainFailure(stage, exception)."""
    import atomica as at

    stage = "ProjectData.new"
    try:
        data = at.ProjectData.new(fw, np.array(years, dtype=float), pops=pops_for(fw, n_pops), transfers=transfers)
        stage = "blank.to_spreadsheet"
        ss = data.to_spreadsheet()
        stage = "blank.from_spreadsheet"
        d2 = at.ProjectData.from_spreadsheet(ss, fw)
        stage = "blank.same_tables"
        if set(d2.tdve.keys()) != set(data.tdve.keys()) or list(d2.pops.keys()) != list(data.pops.keys()):
            raise AssertionError(f"blank databook does not read back: tables {sorted(set(data.tdve) ^ set(d2.tdve))}")
        stage = "fill"
        fill_databook(fw, d2)
        stage = "filled.to_spreadsheet"
        ss2 = d2.to_spreadsheet()
        stage = "filled.from_spreadsheet"
        d3 = at.ProjectData.from_spreadsheet(ss2, fw)
        stage = "filled.validate"
        d3.validate(fw)
        stage = "Project"
        proj = at.Project(framework=fw, databook=ss2, do_run=False)
        proj.settings.update_time_vector(start=float(years[0]), end=end, dt=dt)
        stage = "run_sim"
        res = proj.run_sim()
        return res
    except Exception as e:  # noqa
        raise ChainFailure(stage, e) from e
