"""
vlib.initgen -- C07: generated *initialisation* structures on top of vlib.genfw specs.

The spec format is the one of vlib.genfw with these additions (all optional, all JSON-able):

  pop_types:   ["ta", "tb"]                    population types (default: the single default type)
  pop_type_of: {pop: type}                     type of each population
  comps / characs / pars / transfers entries:  "pop_type": type
  comps / characs entries:                     "default": 0.0   -> framework default value, NO databook page, setup weight 1 ("zero default")
                                               "setup": 0|1     -> explicit setup weight (databook quantity not used for initialisation)
                                               "init": {pop: number | {"t": [...], "v": [...], "assumption": x}}
  cascades:    {name: [[stage, [members]], ...]}   (a user cascade switches the fallback cascade validation off)
  y_factors:   {quantity: {pop: f, "_meta": g}}

`build` is a superset of genfw.build (a genfw spec builds to the same objects).
"""
from __future__ import annotations

import math
import re

import numpy as np
import pandas as pd

from . import genfw
from .genfw import _df, _set_ts, UNITS_LABEL


def _type_of(spec, item):
    types = spec.get("pop_types")
    if not types:
        return None
    return item.get("pop_type") or types[0]


def build_framework(spec):
    import atomica as at

    fw = at.ProjectFramework()
    types = spec.get("pop_types")
    if types:
        fw.sheets["population types"] = [_df(["code name", "description"], [[t, t.upper() + " type"] for t in types])]
    fw.sheets["databook pages"] = [_df(["datasheet code name", "datasheet title"], [["stocks", "Stocks"], ["flows", "Flows"]])]

    # how the setup weights reach the framework: "explicit" (every cell filled in by the harness with the documented default), "blank" (the column exists, as in
    # template-made frameworks, but cells without an explicit weight are left empty), "nocolumn" (no such column; only when no item has an explicit weight).
    # In the last two the library's own default rule fills them in: 1 for an item with a databook page or a default value (not a source/sink), else 0.
    sw_mode = spec.get("sw_mode", "explicit")
    if sw_mode == "nocolumn" and any(c.get("setup") is not None for c in spec["comps"] + spec.get("characs", [])):
        sw_mode = "blank"

    def setup_weight(c):
        if "setup" in c and c["setup"] is not None:
            return c["setup"]
        if sw_mode != "explicit":
            return None
        return 1 if (c.get("databook") or c.get("default") is not None) else 0

    rows = []
    for c in spec["comps"]:
        k = c["kind"]
        db = "stocks" if c.get("databook") else None
        rows.append([c["name"], c["name"].upper() + " comp", "y" if k == "source" else "n", "y" if k == "sink" else "n", "y" if k == "junction" else "n",
                     setup_weight(c), c.get("default"), db, _type_of(spec, c)])
    fw.sheets["compartments"] = [_df(["code name", "display name", "is source", "is sink", "is junction", "setup weight", "default value", "databook page", "population type"], rows)]
    if sw_mode == "nocolumn":
        fw.sheets["compartments"][0] = fw.sheets["compartments"][0].drop(columns=["setup weight"])
    fw.sheets["transitions"] = []
    for t in (types or [None]):
        names = [c["name"] for c in spec["comps"] if _type_of(spec, c) == t]
        if not names:
            continue
        tm = pd.DataFrame(None, index=names, columns=names, dtype=object)
        for s, d, p in spec["transitions"]:
            if s not in names:
                continue
            cur = tm.loc[s, d]
            tm.loc[s, d] = p if (cur is None or (isinstance(cur, float) and math.isnan(cur))) else f"{cur},{p}"
        tm = tm.reset_index().rename(columns={"index": t if t else "Transition Matrix"})
        tm.columns.name = None
        fw.sheets["transitions"].append(tm)
    rows = []
    for c in spec.get("characs", []):
        rows.append([c["name"], c["name"].upper() + " charac", ",".join(c["components"]), c.get("denominator"), setup_weight(c), c.get("default"),
                     "stocks" if c.get("databook") else None, _type_of(spec, c)])
    if rows:
        fw.sheets["characteristics"] = [_df(["code name", "display name", "components", "denominator", "setup weight", "default value", "databook page", "population type"], rows)]
        if sw_mode == "nocolumn":
            fw.sheets["characteristics"][0] = fw.sheets["characteristics"][0].drop(columns=["setup weight"])
    rows = []
    for p in spec["pars"]:
        rows.append([p["name"], p["name"].upper() + " par", p["format"], None, p.get("min"), p.get("max"), p.get("function"), "flows" if p.get("databook", True) else None,
                     "y" if p.get("targetable") else "n", p.get("timescale"), "y" if p.get("derivative") else "n", "y" if p.get("timed") else "n", _type_of(spec, p)])
    fw.sheets["parameters"] = [_df(["code name", "display name", "format", "default value", "minimum value", "maximum value", "function", "databook page", "targetable", "timescale", "is derivative", "timed", "population type"], rows)]
    if spec.get("cascades"):
        fw.sheets["cascades"] = []
        for cname, stages in spec["cascades"].items():
            fw.sheets["cascades"].append(_df([cname, "constituents"], [[s, ",".join(cs)] for s, cs in stages]))
    fw._validate()
    return fw


def pops_of_type(spec, t):
    if not spec.get("pop_types"):
        return list(spec["pops"])
    pt = spec.get("pop_type_of") or {}
    return [p for p in spec["pops"] if (pt.get(p) or spec["pop_types"][0]) == t]


def build_data(spec, fw):
    import atomica as at
    from atomica.utils import TimeSeries

    start, end, dt = spec["settings"]
    years = np.arange(math.floor(start), math.floor(start) + 3, 1.0)
    types = spec.get("pop_types")
    if types:
        pt = spec.get("pop_type_of") or {}
        pops = {p: {"label": p.upper() + " pop", "type": pt.get(p) or types[0]} for p in spec["pops"]}
        transfers = {t["name"]: {"label": t["name"].upper() + " transfer", "type": t.get("pop_type") or types[0]} for t in spec.get("transfers", [])} or 0
    else:
        pops = {p: p.upper() + " pop" for p in spec["pops"]}
        transfers = {t["name"]: t["name"].upper() + " transfer" for t in spec.get("transfers", [])} or 0
    data = at.ProjectData.new(fw, years, pops=pops, transfers=transfers)
    for c in list(spec["comps"]) + list(spec.get("characs", [])):
        if c.get("databook"):
            for pop in pops_of_type(spec, _type_of(spec, c)):
                _set_ts(data.tdve[c["name"]].ts[pop], (c.get("init") or {}).get(pop, 0.0))
    for p in spec["pars"]:
        if p.get("databook", True):
            for pop in pops_of_type(spec, _type_of(spec, p)):
                v = (p.get("value") or {}).get(pop, None)
                if v is None:
                    if p.get("function"):
                        ts = data.tdve[p["name"]].ts[pop]
                        ts.t, ts.vals, ts.assumption = [], [], None
                        continue
                    v = 0.0
                _set_ts(data.tdve[p["name"]].ts[pop], v)
    for t in spec.get("transfers", []):
        tdc = next(x for x in data.transfers if x.code_name == t["name"])
        tdc.ts.clear()
        for a, b, v in t["pairs"]:
            ts = TimeSeries(units=UNITS_LABEL[t["units"]])
            _set_ts(ts, v)
            tdc.ts[(a, b)] = ts
    return data


def apply_y_factors(spec, parset):
    for pname, yf in (spec.get("y_factors") or {}).items():
        for pop, f in yf.items():
            if pop == "_meta":
                parset.pars[pname].meta_y_factor = float(f)
            else:
                parset.pars[pname].y_factor[pop] = float(f)


def build(spec):
    """-> (framework, data, parset, settings)"""
    import atomica as at

    fw = build_framework(spec)
    data = build_data(spec, fw)
    parset = at.ParameterSet(fw, data, "default")
    apply_y_factors(spec, parset)
    start, end, dt = spec["settings"]
    settings = at.ProjectSettings(sim_start=start, sim_end=end, sim_dt=dt)
    return fw, data, parset, settings


# ----------------------------------------------------------------------------------------------
# exact right-hand side from the spec (independent of atomica)
# ----------------------------------------------------------------------------------------------
def interp_exact(val, t0):
    """Exact value of a databook entry at t0 (linear between entered years, constant outside, assumption when no year is entered)."""
    from fractions import Fraction

    if not isinstance(val, dict):
        return Fraction(float(val))
    pts = sorted((Fraction(float(t)), Fraction(float(v))) for t, v in zip(val.get("t", []), val.get("v", [])))
    if not pts:
        return Fraction(float(val["assumption"]))
    x = Fraction(float(t0))
    if x <= pts[0][0]:
        return pts[0][1]
    if x >= pts[-1][0]:
        return pts[-1][1]
    for (ta, va), (tb, vb) in zip(pts, pts[1:]):
        if ta <= x <= tb:
            return va + (vb - va) * (x - ta) / (tb - ta)
    raise AssertionError


# ----------------------------------------------------------------------------------------------
# generator
# ----------------------------------------------------------------------------------------------
def _rename(obj, mapping):
    """rename identifiers in every string of a JSON-like object (whole-word)"""
    pat = re.compile(r"\b(" + "|".join(sorted(map(re.escape, mapping), key=len, reverse=True)) + r")\b")
    if isinstance(obj, str):
        return pat.sub(lambda m: mapping[m.group(1)], obj)
    if isinstance(obj, list):
        return [_rename(x, mapping) for x in obj]
    if isinstance(obj, dict):
        return {(_rename(k, mapping) if isinstance(k, str) else k): _rename(v, mapping) for k, v in obj.items()}
    return obj


def base_dynamics(r, regime, features=None):
    """dynamics (compartments, links, parameters) from genfw.random_spec, short run; one or two population types"""
    f = {"nsteps": r.randint(2, 5), "dt": r.choice([1.0, 0.5, 0.25, 0.1]), "transfers": False}
    f.update(features or {})
    two_types = f.pop("two_types", r.random() < 0.25)
    spec = genfw.random_spec(r, regime, f)
    spec.pop("regime", None)
    if not two_types:
        return spec
    f2 = dict(f)
    f2["start"], f2["dt"], f2["nsteps"] = spec["settings"][0], spec["settings"][2], None
    f2.pop("nsteps")
    f2["npops"] = r.choice([1, 2])
    f2["n_norm"] = r.randint(2, 3)
    f2["junctions"] = r.choice([0, 0, 1])
    f2["timed"] = 0
    spec2 = genfw.random_spec(r, regime, f2)
    names = [c["name"] for c in spec2["comps"]] + [c["name"] for c in spec2["characs"]] + [p["name"] for p in spec2["pars"]]
    mapping = {n: n + "y" for n in names}
    mapping.update({p: "q" + p[1:] for p in spec2["pops"]})
    spec2 = _rename(spec2, mapping)
    out = dict(spec)
    out["pop_types"] = ["ta", "tb"]
    out["pop_type_of"] = {p: "ta" for p in spec["pops"]}
    out["pop_type_of"].update({p: "tb" for p in spec2["pops"]})
    for key in ("comps", "characs", "pars"):
        out[key] = [dict(x, pop_type="ta") for x in spec[key]] + [dict(x, pop_type="tb") for x in spec2[key]]
    out["transitions"] = spec["transitions"] + spec2["transitions"]
    out["pops"] = spec["pops"] + spec2["pops"]
    out["transfers"] = []
    return out


def stock_names(spec, t=None):
    return [c["name"] for c in spec["comps"] if c["kind"] in ("normal", "junction") and (t is None or _type_of(spec, c) == t)]


def _series(r, v, start):
    """a databook entry that evaluates to v at `start`: constant, on a data year, or strictly between two data years"""
    c = r.random()
    if c < 0.45:
        return v
    if c < 0.65:
        return {"t": [start - 2, start, start + 3], "v": [round(v * 0.5, 3), v, round(v * 1.5 + 1, 3)], "assumption": None}
    if c < 0.75:
        return {"t": [start + 1], "v": [v], "assumption": None}  # single later year: constant extrapolation backwards
    # strictly between two years: end values on a chord through (start, v) with dyadic spans and slopes, so the chord is exact
    lam = r.choice([0.5, 0.25, 0.75])
    span = r.choice([2, 4, 8])
    t1 = start - lam * span
    t2 = t1 + span
    slope = r.choice([0.0, 0.5, 1.0, -1.0, 2.0])
    v1 = v - slope * (start - t1)
    v2 = v + slope * (t2 - start)
    if v1 < 0 or v2 < 0:
        v1 = v2 = v
    return {"t": [t1, t2], "v": [v1, v2], "assumption": None}


def random_init_spec(r, regime="consistent", features=None):
    """
    A genfw dynamics spec with a generated initialisation structure.
    regime: consistent | inconsistent | negative | boundary | underdetermined | overlap
    Returns spec; spec["_truth"] = {pop: {comp: x*}} is the assignment the databook values were derived from (when one exists).
    """
    feats = dict(features or {})
    dyn_regime = feats.pop("dyn_regime", "calibrated")
    spec = base_dynamics(r, dyn_regime, feats)
    start = spec["settings"][0]
    types = spec.get("pop_types") or [None]
    characs = []
    truth = {}
    cascade = {}
    yf = {}
    fn_cands = []
    for t in types:
        sfx = "" if t in (None, "ta") else "y"
        stocks = stock_names(spec, t)
        juncs = [c["name"] for c in spec["comps"] if c["kind"] == "junction" and _type_of(spec, c) == t]
        pops = pops_of_type(spec, t)
        # ---- inclusion structure: nested characteristics over the stocks
        order = list(stocks)
        r.shuffle(order)
        defs = []  # (name, components, denominator)
        n_char = r.choice([0, 1, 2, 2, 3, 4])
        level = []
        for i in range(n_char):
            name = f"h{i}{sfx}"
            if regime == "overlap" and defs and r.random() < 0.7:
                inner = r.choice(defs)
                members = expand_names(defs, inner[0])
                comps_in = [r.choice(members)] + [x for x in order if x not in members and r.random() < 0.4] + [inner[0]]
            else:
                # nested and disjoint: take a fresh block of compartments, plus possibly an earlier disjoint characteristic
                used = set()
                comps_in = []
                if defs and r.random() < 0.6:
                    inner = r.choice(defs)
                    comps_in.append(inner[0])
                    used |= set(expand_names(defs, inner[0]))
                    if r.random() < 0.3:
                        other = [d for d in defs if not (set(expand_names(defs, d[0])) & used)]
                        if other:
                            o = r.choice(other)
                            comps_in.append(o[0])
                            used |= set(expand_names(defs, o[0]))
                free = [x for x in order if x not in used]
                k = r.randint(0 if comps_in else 1, max(1, min(3, len(free))))
                comps_in += r.sample(free, min(k, len(free)))
                r.shuffle(comps_in)
            if not comps_in:
                continue
            defs.append((name, comps_in, None))
        total = f"tot{sfx}"
        defs.append((total, list(stocks), None))
        # fractions: numerator block over a denominator-free denominator that is in the databook
        fracs = []
        for i in range(r.choice([0, 0, 1, 1, 2])):
            den = r.choice([d[0] for d in defs] + stocks)
            den_members = expand_names(defs, den) if den in [d[0] for d in defs] else [den]
            num = r.sample(den_members, r.randint(1, len(den_members)))
            if regime == "overlap" and r.random() < 0.3 and defs:
                num = num + [r.choice([d[0] for d in defs])]
            fracs.append((f"f{i}{sfx}", num, den))
        # ---- which quantities initialise
        mode = {"underdetermined": "under", "consistent": r.choice(["exact", "over", "under", "over"]), "overlap": "over"}.get(regime, r.choice(["exact", "over", "under"]))
        db_comps = set()
        db_chars = set()
        if mode == "exact":
            db_comps = set(stocks)
        elif mode == "over":
            db_comps = set(stocks)
            db_chars = {d[0] for d in defs if r.random() < 0.7}
        else:
            db_comps = {s for s in stocks if r.random() < 0.5}
            db_chars = {d[0] for d in defs if r.random() < 0.6}
        # junctions are usually not initialised
        for j in juncs:
            if r.random() < 0.6:
                db_comps.discard(j)
        zero_default = set()
        for s in list(stocks):
            if s not in db_comps and r.random() < 0.25:
                zero_default.add(s)
        db_fracs = set()
        for (fname, num, den) in fracs:
            if r.random() < 0.7:
                db_fracs.add(fname)
                if den in stocks:
                    db_comps.add(den)
                    zero_default.discard(den)
                else:
                    db_chars.add(den)
        den_names = {den for (fname, num, den) in fracs if fname in db_fracs}
        # ---- the assignment the data are derived from
        for pop in pops:
            x = {}
            for s in stocks:
                if s in zero_default:
                    x[s] = 0.0
                elif r.random() < 0.15:
                    x[s] = 0.0
                else:
                    x[s] = float(r.choice([r.randint(1, 1000), round(r.uniform(0.5, 500), 2), r.randint(1, 20) * 1000]))
            truth[pop] = x

        def val(members, pop):
            return float(sum(truth[pop][m] for m in set(members)))

        # ---- emit
        for c in spec["comps"]:
            if c["name"] in stocks:
                c["databook"] = c["name"] in db_comps
                c["init"] = None
                c.pop("default", None)
                if c["name"] in zero_default:
                    c["default"] = 0.0
                if c["databook"]:
                    c["init"] = {pop: _series(r, truth[pop][c["name"]], start) for pop in pops}
                    if r.random() < 0.1 and c["name"] not in den_names:
                        c["setup"] = 0  # in the databook but not used for initialisation
                        c["init"] = {pop: float(r.randint(1, 50)) for pop in pops}
        mine_chars = []
        for (name, comps_in, _) in defs:
            e = {"name": name, "components": comps_in, "denominator": None, "databook": name in db_chars, "init": None}
            if t is not None:
                e["pop_type"] = t
            if e["databook"]:
                e["init"] = {pop: _series(r, val(expand_names(defs, name), pop), start) for pop in pops}
            characs.append(e)
            mine_chars.append(e)
        for (fname, num, den) in fracs:
            e = {"name": fname, "components": num, "denominator": den, "databook": fname in db_fracs, "init": None}
            if t is not None:
                e["pop_type"] = t
            if e["databook"]:
                e["init"] = {}
                for pop in pops:
                    nm = []
                    for z in num:
                        nm += expand_names(defs, z) if z in [d[0] for d in defs] else [z]
                    dm = expand_names(defs, den) if den in [d[0] for d in defs] else [den]
                    dv = val(dm, pop)
                    # choose a dyadic-friendly fraction when possible so that frac*den is exact; otherwise the quotient
                    e["init"][pop] = (val(nm, pop) / dv) if dv > 0 else 0.0
            characs.append(e)
            mine_chars.append(e)
        fn_cands += [name for (name, _, _) in defs] + [fname for (fname, _, _) in fracs]
        cascade[f"casc{sfx or 'x'}"] = [["everyone", list(stocks)]]
        # ---- calibration factors on initialisation quantities: scale the databook entry down and the factor up (exactly, powers of two)
        for e in [c for c in spec["comps"] if c["name"] in stocks and c.get("databook")] + [c for c in mine_chars if c.get("databook")]:
            if r.random() < 0.3 and e.get("setup", 1):
                yf.setdefault(e["name"], {})
                for pop in pops:
                    if r.random() < 0.7:
                        k = r.choice([2.0, 0.5, 4.0, 0.25])
                        e["init"][pop] = _scale_entry(e["init"][pop], 1 / k)
                        yf[e["name"]][pop] = k
                if r.random() < 0.4:
                    k = r.choice([2.0, 0.5])
                    for pop in pops:
                        e["init"][pop] = _scale_entry(e["init"][pop], 1 / k)
                    yf[e["name"]]["_meta"] = k
    # keep genfw's own 'alive' characteristic(s) out of the way: they are replaced by tot
    spec["characs"] = characs
    spec["pars"] = [dict(p) for p in spec["pars"]]
    for p in spec["pars"]:
        if p.get("function"):
            p["function"] = re.sub(r"\balive(y?)\b", lambda m: "tot" + m.group(1), p["function"])
    # make some characteristics dynamic (used by a parameter function) so that Characteristic.update runs inside the loop
    cands = [p for p in spec["pars"] if not p.get("timed") and p["format"] in ("rate", "probability") and not p.get("function")]
    for p in r.sample(cands, min(len(cands), r.choice([0, 1, 2]))):
        sfx = "y" if p["name"].endswith("y") and spec.get("pop_types") else ""
        mine = [n for n in fn_cands if n.endswith("y") == bool(sfx)] if spec.get("pop_types") else fn_cands
        if not mine:
            continue
        ch = r.choice(mine)
        p["function"] = f"0.1*{ch}/({ch}+1)"
        p["databook"] = False
        p["value"] = {}
    spec["cascades"] = cascade
    spec["y_factors"] = {k: v for k, v in yf.items() if v}
    spec["_truth"] = truth
    spec["init_regime"] = regime
    perturb(r, spec, regime)
    # setup weights strictly between 0 and 1 on some initialisation quantities: any positive weight makes the quantity one of the equations; it is NOT a licence to miss
    # the databook value by tolerance/weight (decided from the spec, not from `r`)
    import zlib as _z
    for c in spec["comps"] + spec.get("characs", []):
        if c.get("databook") and c.get("setup") is None and c.get("init") and _z.crc32((c["name"] + regime + repr(spec["settings"])).encode()) % 5 == 0:
            c["setup"] = [0.5, 0.01, 0.25][_z.crc32(c["name"].encode()) % 3]
    # how the setup weights are written into the framework (derived from the spec, not from `r`, so that the random stream of older seeds is unchanged)
    import zlib
    spec["sw_mode"] = ["explicit", "blank", "nocolumn"][zlib.crc32(repr([(c["name"], c.get("default"), c.get("databook")) for c in spec["comps"]] + [regime, spec["settings"]]).encode()) % 3]
    return spec


def _scale_entry(v, k):
    if isinstance(v, dict):
        return {"t": v["t"], "v": [x * k for x in v["v"]], "assumption": (None if v.get("assumption") is None else v["assumption"] * k)}
    return v * k


def _shift_entry(v, d):
    if isinstance(v, dict):
        return {"t": v["t"], "v": [x + d for x in v["v"]], "assumption": (None if v.get("assumption") is None else v["assumption"] + d)}
    return v + d


def expand_names(defs, name):
    """transitive expansion with multiplicity, in the code's order (defs: list of (name, components, denominator))"""
    table = {d[0]: d[1] for d in defs}
    out = []
    for c in table[name]:
        if c in table:
            out += expand_names(defs, c)
        else:
            out.append(c)
    return out


def perturb(r, spec, regime):
    """turn a consistent databook into an inconsistent / negative-implying / boundary one"""
    if regime in ("consistent", "underdetermined", "overlap"):
        return
    entries = [c for c in list(spec["comps"]) + list(spec["characs"]) if c.get("databook") and c.get("setup", 1) and c.get("init") and not c.get("denominator")]
    if not entries:
        return
    pops = spec["pops"]
    pop = r.choice(pops)
    es = [e for e in entries if pop in e["init"]]
    if not es:
        return
    e = r.choice(es)
    if regime == "inconsistent":
        d = r.choice([1.0, -1.0, 0.01, 25.0, 1e-3, 2e-3, 5e-4, 1e-5, 3e-6])
    elif regime == "negative":
        # push a quantity below what its parts need (implies a negative compartment when the system is square/under-determined)
        d = -r.choice([5.0, 50.0, 1e-3, 2e-6, 1.5e-6, 1e4])
    else:  # boundary: within a few ulps / factors of the tolerances
        d = r.choice([1e-6, -1e-6, 0.9e-6, -0.9e-6, 1.1e-6, -1.1e-6, 2e-6, -2e-6, 3e-6, -3e-6, 1.8e-6, -1.8e-6, 1e-3, 1.7320508e-3, 1.8e-3, 1.7e-3, 5e-7, -5e-7])
    k = 1.0
    yfs = (spec.get("y_factors") or {}).get(e["name"], {})
    k = yfs.get(pop, 1.0) * yfs.get("_meta", 1.0)
    e["init"][pop] = _shift_entry(e["init"][pop], d / k)
    spec["_perturbed"] = [e["name"], pop, d]
