"""
vlib.params_corr -- mode C (whole-trajectory, per value) for the parameter pipeline: C06 (parameter half) and C13.

For every (parameter, population, time index) of a processed Model the INPUTS of `Atomica.Params.evalOne` are collected
independently of the integration loop --

  * databook value: `ParameterSet` series interpolated by the implementation (checked by C06Series) times the calibration factors
    (exact product of the three floats),
  * function value: the parsed parameter function evaluated by the harness on the *final, same-step* values of its dependencies
    taken from the finished arrays (flows divided by dt), times the calibration factor,
  * population aggregations recomputed in exact arithmetic from the finished arrays and the interaction weights,
  * program side: spending / unit cost / constraint / saturation / overwrites looked up by an independent stepped lookup,
    target compartment sizes from the finished arrays; coverage by `Atomica.Params.covUsed`, outcome by `Atomica.Covout.outcome`,
  * limits from the framework table, skip windows from the ParameterSet, start/stop from the instructions --

and the model's value is compared with `par.vals[ti]` to 1e-11.  `ProgramSet.get_outcomes` and `Program.get_prop_covered` of the
Model's own program set are wrapped from outside to record what the loop used at every index; those records are compared with
the model *and* with `Result.get_coverage / get_alloc` after the run (report_eq_used).

Entry point: `run_params(ctx, prop)` with prop in {"C06", "C13"}.
"""
from __future__ import annotations

import bisect
import math
import random as _random
import types
import zlib
from fractions import Fraction

import numpy as np

from . import core, genfw
from .core import q, unq

RTOL = 1e-11
TOL_TRANSFER_DURATION = 1e-6  # model_settings["tolerance"] (lower limit of duration transfers)


def fr(x):
    return Fraction(*float(x).as_integer_ratio())


def qv(x):
    """wire form of a float that may be NaN/None"""
    if x is None:
        return "nan"
    x = float(x)
    return "nan" if not math.isfinite(x) else q(x)


def qf(x):
    """wire form of an exact Fraction or None"""
    return "nan" if x is None else q(x)


# ----------------------------------------------------------------------------------------------------------------------
# program sets and scenarios from JSON-able specs
# ----------------------------------------------------------------------------------------------------------------------
def to_ts(s, units=None):
    from atomica.utils import TimeSeries

    ts = TimeSeries(units=units)
    if s is None:
        return ts
    if not isinstance(s, dict):
        ts.assumption = float(s)
        return ts
    if s.get("a") is not None:
        ts.assumption = float(s["a"])
    for t, v in zip(s.get("t", []), s.get("v", [])):
        ts.insert(float(t), float(v))
    return ts


def build_progset(progspec, fw, data):
    """progspec -> (ProgramSet, ProgramInstructions)"""
    import atomica as at
    from atomica.programs import Covout, Program, ProgramInstructions

    ps = at.ProgramSet(name="gen", framework=fw, data=data, tvec=np.array([2000.0, 2001.0]))
    for p in progspec["programs"]:
        prog = Program(p["name"], label=p["name"] + " program", target_pops=list(p["pops"]), target_comps=list(p["comps"]))
        prog.spend_data = to_ts(p["spend"], "$/year")
        prog.unit_cost = to_ts(p["uc"], p["uc_units"])
        prog.capacity_constraint = to_ts(p.get("cc"), p.get("cc_units", "people/year"))
        prog.saturation = to_ts(p.get("sat"), "N.A.")
        ps.programs[p["name"]] = prog
    for c in progspec["covouts"]:
        ps.covouts[(c["par"], c["pop"])] = Covout(c["par"], c["pop"], dict(c["progs"]), cov_interaction=c.get("inter"), imp_interaction=c.get("imp"), baseline=float(c["baseline"]))
    i = progspec["instr"]

    def conv(d):
        return {k: to_ts(s) for k, s in d.items()} if d else None

    instr = ProgramInstructions(start_year=i["start"], stop_year=i.get("stop"), alloc=conv(i.get("alloc")), capacity=conv(i.get("capacity")), coverage=conv(i.get("coverage")))
    return ps, instr


def apply_scenarios(scen, parset, fw, settings):
    """scen: [{"par", "pop", "t": [...], "y": [...], "interp": "linear"|"previous"}] -> new ParameterSet through the public API"""
    import atomica as at

    if not scen:
        return parset
    stub = types.SimpleNamespace(settings=settings, framework=fw)
    done = set()
    for k, s in enumerate(scen):
        if k in done:
            continue
        # entries that carry the same "group" belong to ONE ParameterScenario (one scenario overwriting a parameter in several populations / several parameters)
        members = [j for j, s2 in enumerate(scen) if j >= k and s.get("group") is not None and s2.get("group") == s.get("group")] or [k]
        done.update(members)
        values = {}
        for j in members:
            values.setdefault(scen[j]["par"], {})[scen[j]["pop"]] = {"t": list(scen[j]["t"]), "y": list(scen[j]["y"])}
        sc_ = at.ParameterScenario(name="sc", scenario_values=values, interpolation=s.get("interp", "linear"))
        parset = sc_.get_parset(parset, stub)
    return parset


# ----------------------------------------------------------------------------------------------------------------------
# running a model with the loop's program calls observed from outside
# ----------------------------------------------------------------------------------------------------------------------
class Run:
    pass


class ImplError(Exception):
    """an exception raised by atomica itself (not by the harness) while building / processing / reporting"""

    def __init__(self, where, exc, tb):
        super().__init__(f"{where}: {type(exc).__name__}: {exc}")
        self.where, self.exc, self.tb = where, exc, tb


def impl_call(where, f, passthrough=()):
    import traceback

    try:
        return f()
    except passthrough:
        raise
    except Exception as e:  # noqa
        raise ImplError(where, e, traceback.format_exc()) from e


# ----------------------------------------------------------------------------------------------------------------------
# independent look-ups
# ----------------------------------------------------------------------------------------------------------------------
def lookup_prev(ts, t):
    """stepped ('previous') value of a TimeSeries at t with constant extrapolation; None when it has no data (NaN)"""
    if ts is None:
        return None
    pts = [(float(a), float(b)) for a, b in zip(ts.t, ts.vals) if b is not None and not math.isnan(float(b)) and not math.isnan(float(a))]
    if len(ts.t) == 0:
        a = ts.assumption
        return None if a is None or math.isnan(float(a)) else float(a)
    if not pts:
        return None
    pts.sort()
    i = bisect.bisect_right([p[0] for p in pts], float(t)) - 1
    return pts[max(i, 0)][1]


def parse_imp(imp, prog_names):
    """`'P1+P2=10,P2+P3=20'` -> [(bitset over dict positions, value)] in order (later entries override)"""
    out = []
    if imp and imp.lower() not in ("best", "synergistic"):
        for item in imp.split(","):
            combo, val = item.split("=")
            names = [x.strip() for x in combo.split("+")]
            out.append((sum(1 << prog_names.index(n) for n in set(names)), float(val)))
    return out


def covout_order_consistent(co):
    """the float ordering of |outcome - baseline| (used by the code's sort and argmax) agrees with the exact ordering (used by the model)"""
    outs = [float(v) for v in co.progs.values()]
    b = float(co.baseline)
    fl = [abs(o - b) for o in outs]
    exq = [abs(fr(o) - fr(b)) for o in outs]
    for i in range(len(outs)):
        for j in range(i + 1, len(outs)):
            if (fl[i] < fl[j]) != (exq[i] < exq[j]) or (fl[i] == fl[j]) != (exq[i] == exq[j]):
                return False
    return True


def covout_sum_ambiguous(co, covs):
    if co.cov_interaction != "additive" or len(covs) < 2 or any(c is None or c == "err" for c in covs):
        return False
    ex = sum(covs, Fraction(0))
    return ex != 1 and abs(float(ex) - 1.0) < 1e-12


def units_code(u):
    if u == "number":
        return "n"
    if u in ("probability", "rate"):
        return "f"
    return "o"


def exp_oracle(cap, elig, sat):
    if sat is None or elig == 0 or sat <= 0 or cap is None:
        return 1.0
    with np.errstate(all="ignore"):
        v = float(np.exp(np.float64(-2.0) * (np.float64(cap) / np.float64(elig)) / np.float64(sat)))
    return v if math.isfinite(v) else 1.0


def spec_capacity(spend, uc, dt, one_off, cc, cc_per_year):
    cap = (spend * dt if one_off else spend) / uc
    if cc is not None:
        cap = min(cc * dt if cc_per_year else cc, cap)
    return cap


# ----------------------------------------------------------------------------------------------------------------------
# stage 1: programs (per program and time index)
# ----------------------------------------------------------------------------------------------------------------------
def prog_point(run, prog, ti):
    """inputs of `prog-cov` for one program at one index, or None if outside the modelled domain"""
    from atomica.model import JunctionCompartment

    m, instr = run.m, run.instr
    t, dt = float(m.t[ti]), float(m.dt)
    spend = lookup_prev(prog.spend_data, t)
    uc = lookup_prev(prog.unit_cost, t)
    cc = lookup_prev(prog.capacity_constraint, t) if prog.capacity_constraint.has_data else None
    sat = lookup_prev(prog.saturation, t) if prog.saturation.has_data else None
    one_off = "/year" not in prog.unit_cost.units
    per_year = "/year" in prog.capacity_constraint.units
    ov = {}
    for kind in ("alloc", "capacity", "coverage"):
        d = getattr(instr, kind)
        ov[kind] = lookup_prev(d[prog.name], t) if prog.name in d else None
        if prog.name in d and ov[kind] is None:
            return None
    targets = []
    for pop_name in prog.target_pops:
        for comp_name in prog.target_comps:
            comp = m.get_pop(pop_name).get_comp(comp_name)
            isj = isinstance(comp, JunctionCompartment)
            targets.append((isj, float(comp.vals[ti]), float(comp.outflow[ti]) if isj else 0.0))
    if ov["alloc"] is None and spend is None:
        return None
    if uc is None or uc == 0 or (sat is not None and sat <= 0):
        return None
    if any(not math.isfinite(x) for tg in targets for x in tg[1:]):
        return None
    eff_spend = ov["alloc"] if ov["alloc"] is not None else spend
    if ov["capacity"] is not None:
        cap = ov["capacity"] * dt if one_off else ov["capacity"]
    else:
        cap = spec_capacity(eff_spend, uc, dt, one_off, cc, per_year)
    elig_used = sum(tg[1] for tg in targets)
    e = exp_oracle(cap, elig_used, sat) if ov["coverage"] is None else 1.0
    req = " ".join(["prog-cov", q(dt), str(int(one_off)), str(int(per_year)), q(spend if spend is not None else 0.0), q(uc), "none" if cc is None else q(cc), "none" if sat is None else q(sat),
                    "none" if ov["alloc"] is None else q(ov["alloc"]), "none" if ov["capacity"] is None else q(ov["capacity"]), "none" if ov["coverage"] is None else q(ov["coverage"]),
                    q(e), str(len(targets))] + [f"{int(a)} {q(b)} {q(c)}" for a, b, c in targets])
    return {"req": req, "one_off": one_off, "sat": sat, "cap": cap, "ov": ov, "has_junction": any(tg[0] and tg[2] != 0 for tg in targets), "any_junction": any(tg[0] for tg in targets),
            "neg": any(tg[1] < 0 for tg in targets), "elig": elig_used, "cc": cc, "t": t, "alloc_spec": eff_spend,
            "elig_rep": sum((tg[2] if tg[0] else tg[1]) for tg in targets)}


def is_active(run, ti):
    i = run.instr
    if run.progset is None or i is None or not run.m.programs_active:
        return False
    t = float(run.m.t[ti])
    return i.start_year <= t <= i.stop_year


def run_programs(ctx, run, prop, rp, tis):
    """stage 1 for one run; returns {(prog, ti): model covUsed (Fraction|None|'err')}"""
    m, res, ps = run.m, run.res, run.progset
    dt = float(m.dt)
    reqs, meta = [], []
    for prog in ps.programs.values():
        for ti in tis:
            pt = prog_point(run, prog, ti)
            if pt is None:
                ctx.count("prog.outside_domain(skipped)")
                continue
            reqs.append(pt["req"])
            meta.append((prog, ti, pt))
    reps = core.drive(reqs)
    def _reports():
        with np.errstate(all="ignore"):
            return res.get_alloc(), {k: res.get_coverage(k) for k in ("capacity", "eligible", "fraction", "number")}

    rep_alloc, rep_cov = impl_call("Result.get_alloc/get_coverage", _reports)
    # "reports match the run": the finished result describes the run that produced it, whatever the caller does afterwards with the objects it passed in
    # (the usual scenario loop edits one ProgramInstructions / ProgramSet in place for the next run)
    ci, cp = getattr(run, "caller_instr", None), getattr(run, "caller_progset", None)
    if prop == "C13" and ci is not None and not getattr(run, "caller_edited", False):
        run.caller_edited = True
        try:
            for ts in list(ci.alloc.values()) + list(ci.capacity.values()) + list(ci.coverage.values()):
                ts.vals = [float(v) * 3.0 + 7.0 for v in ts.vals]
                if ts.assumption is not None:
                    ts.assumption = float(ts.assumption) * 3.0 + 7.0
            ci.start_year = float(ci.start_year) + 1.0
            if cp is not None:
                for prog in cp.programs.values():
                    prog.unit_cost.vals = [float(v) * 2.0 for v in prog.unit_cost.vals]
                    if prog.unit_cost.assumption is not None:
                        prog.unit_cost.assumption = float(prog.unit_cost.assumption) * 2.0
                    prog.spend_data.vals = [float(v) * 5.0 + 1.0 for v in prog.spend_data.vals]
                    if prog.spend_data.assumption is not None:
                        prog.spend_data.assumption = float(prog.spend_data.assumption) * 5.0 + 1.0
        except Exception as e:
            raise ImplError("caller-edit", e, "")
        rep_alloc2, rep_cov2 = impl_call("Result.get_alloc/get_coverage", _reports)
        ctx.count("report.after_caller_edit")
        def _same(a, b):
            return set(a) == set(b) and all(np.array_equal(np.asarray(a[k], dtype=float), np.asarray(b[k], dtype=float), equal_nan=True) for k in a)
        diff = [what for what, a, b in [("get_alloc", rep_alloc, rep_alloc2)] + [(f"get_coverage({k!r})", rep_cov[k], rep_cov2[k]) for k in rep_cov] if not _same(a, b)]
        if diff:
            ctx.violation({"api": "Result.get_coverage", "law": "report_after_caller_edit"}, f"{run.label}: after the caller edited the ProgramInstructions / ProgramSet objects it had passed to the run, the finished result reports different {', '.join(diff)} (the result must describe the run that produced it)", dict(rp))

    def _equiv():
        with np.errstate(all="ignore"):
            return res.get_equivalent_alloc()

    rep_equiv = impl_call("Result.get_equivalent_alloc", _equiv)
    cov_model = {}
    for (prog, ti, pt), rep in zip(meta, reps):
        nm = prog.name
        toks = rep.split()
        if rep.startswith("err") or len(toks) != 8:
            cov_model[(nm, ti)] = "err"
            ctx.count("prog.model_err")
            continue
        m_alloc, m_capU, m_eligU, m_covU, m_capR, m_eligR, m_covR, m_numR = (unq(x) for x in toks)
        cov_model[(nm, ti)] = m_covU
        active = is_active(run, ti)
        ctx.count("prog.point")
        ctx.count("prog.oneoff" if pt["one_off"] else "prog.continuous")
        if pt["sat"] is not None:
            ctx.count("prog.saturation")
        if pt["cc"] is not None:
            ctx.count("prog.capacity_constraint")
        for k, v in pt["ov"].items():
            if v is not None:
                ctx.count("overwrite." + k)
        if len(prog.target_pops) > 1:
            ctx.count("prog.multi_pops")
        if len(prog.target_comps) > 1:
            ctx.count("prog.multi_comps")
        key0 = {"api": "Result.get_coverage", "oneoff": pt["one_off"]}
        rp1 = dict(rp, prog=nm, ti=ti, t=pt["t"])
        sc_cap = max(abs(pt["cap"]), 1e-300) if pt["cap"] is not None else 1.0
        sc_cov = max(1.0, pt["sat"] or 1.0)
        ann = dt if pt["one_off"] else 1.0
        # ---------- reported quantities vs model; on a disagreement the independent float recomputation decides
        i_alloc = float(rep_alloc[nm][ti])
        i_capR, i_eligR, i_covR, i_numR = (float(rep_cov[k][nm][ti]) if nm in rep_cov[k] else 0.0 for k in ("capacity", "eligible", "fraction", "number"))
        spec_vals = {"alloc": pt["alloc_spec"], "capacity": None if pt["cap"] is None else pt["cap"] / ann, "eligible": pt["elig_rep"]}
        pairs = [("alloc", m_alloc, i_alloc, max(abs(i_alloc), 1e-300), 1e-15)]
        if pt["ov"]["alloc"] is None and lookup_prev(prog.spend_data, pt["t"]) is None:
            pairs = []
        pairs += [("capacity", m_capR, i_capR, sc_cap / ann, 1e-12), ("eligible", m_eligR, i_eligR, max(abs(pt["elig"]), 1.0), 1e-12)]
        if not pt["has_junction"]:
            pairs += [("fraction", m_covR, i_covR, sc_cov, RTOL), ("number", m_numR, i_numR, sc_cov * max(abs(pt["elig"]), 1.0) / ann, RTOL)]
        else:
            ctx.count("junction.target_nonzero_outflow(excluded)")
        for what, mv, iv, scale, tol in pairs:
            ctx.traces += 1
            if not core.close(mv, iv, scale=scale, rtol=tol):
                ctx.disagreements_checked += 1
                sv = spec_vals.get(what)
                msg = f"{run.label}: Result reports {what} {iv!r} for program {nm} at t={pt['t']!r} (dt={dt!r})"
                if sv is not None and abs(sv - iv) > 1e-9 * max(scale, abs(sv)):
                    ctx.violation(dict(key0, law="report_" + what), msg + f"; this step's program book / instructions / finished compartment sizes give {sv!r}", rp1)
                else:
                    ctx.brk("correspondence", msg + f"; model {None if mv is None else float(mv)!r}", replay=rp1)
        # ---------- get_equivalent_alloc: where "the minimal spending for the coverage reached" must be the spending itself
        # (coverage below 1, no saturation / constraint / capacity or coverage overwrite, time-constant unit cost, and the units of the
        #  progbook's coverage row agree with the unit cost: '/year' exactly for one-off programs)
        hyp_eq = (pt["sat"] is None and pt["cc"] is None and pt["ov"]["capacity"] is None and pt["ov"]["coverage"] is None and not pt["any_junction"]
                  and len(set(prog.unit_cost.vals)) <= 1 and (("/year" in prog.coverage.units) == pt["one_off"]) and math.isfinite(i_covR) and i_covR < 1.0 - 1e-9 and pt["elig"] > 0)
        if hyp_eq and nm in rep_equiv:
            ctx.count("equivalent_alloc.checked")
            i_eq = float(rep_equiv[nm][ti])
            if not (abs(i_eq - i_alloc) <= 1e-9 * max(abs(i_alloc), 1e-300)):
                ctx.violation(dict(key0, law="equivalent_alloc"), f"{run.label}: program {nm} at t={pt['t']!r}: spending {i_alloc!r} buys coverage {i_covR!r} < 1 without saturation or constraint, but get_equivalent_alloc reports {i_eq!r}", rp1)
        # ---------- what the loop used vs the report (the property's own predicate) and vs the model
        if not active:
            ctx.count("prog.inactive_index")
            continue
        ctx.count("prog.active_index")
        oc = run.outcome_calls.get(ti)
        if oc is None:
            ctx.violation({"api": "Model.update_pars", "case": "no-outcome-call"}, f"{run.label}: programs are active at index {ti} (t={pt['t']!r}) but ProgramSet.get_outcomes was not called in that step", rp1)
            continue
        u_cov = oc[0].get(nm)
        cc_ = run.cov_calls.get((nm, ti))
        flagged = False
        if pt["ov"]["coverage"] is not None:
            ctx.count("used.coverage_overwrite")
            if cc_ is not None:
                ctx.brk("correspondence", f"{run.label}: program {nm} has a coverage overwrite but get_prop_covered was called in the loop at index {ti}", replay=rp1)
        else:
            if cc_ is None:
                ctx.brk("correspondence", f"{run.label}: no in-loop get_prop_covered call recorded for program {nm} at index {ti}", replay=rp1)
                continue
            _, u_cap, u_elig, u_ret = cc_
            if abs(u_cap / ann - i_capR) > 1e-12 * max(abs(i_capR), sc_cap / ann):
                flagged = True
                ctx.violation(dict(key0, law="report_eq_used", what="capacity"), f"{run.label}: program {nm} at t={pt['t']!r}: the step used capacity {u_cap!r} people (dt={dt!r}) but Result.get_coverage('capacity') reports {i_capR!r} people/year", rp1)
            if not pt["any_junction"] and abs(u_elig - i_eligR) > 1e-12 * max(abs(i_eligR), 1.0):
                flagged = True
                ctx.violation(dict(key0, law="report_eq_used", what="eligible"), f"{run.label}: program {nm} at t={pt['t']!r}: the step used {u_elig!r} eligible but Result.get_coverage('eligible') reports {i_eligR!r}", rp1)
            for what, mv, iv, scale, tol in (("capacity", m_capU, u_cap, sc_cap, 1e-12), ("eligible", m_eligU, u_elig, max(abs(pt["elig"]), 1.0), 1e-12)):
                ctx.traces += 1
                if not core.close(mv, iv, scale=scale, rtol=tol):
                    ctx.disagreements_checked += 1
                    if not flagged:
                        ctx.brk("correspondence", f"{run.label}: in-loop {what} of program {nm} at t={pt['t']!r}: implementation {iv!r}, model {None if mv is None else float(mv)!r}", replay=rp1)
            if u_ret != u_cov and not (math.isnan(u_ret) and math.isnan(u_cov)):
                flagged = True
                ctx.violation({"api": "Model.update_pars", "case": "coverage-not-passed"}, f"{run.label}: get_prop_covered returned {u_ret!r} for {nm} at index {ti} but get_outcomes received {u_cov!r}", rp1)
        ctx.traces += 1
        ctx.hyp_checked += 1
        hyp = not pt["has_junction"] and not pt["neg"]
        if hyp:
            ctx.hyp_held += 1  # hypotheses of report_eq_used: no junction target (with outflow), no negative target
        # report_eq_used on the implementation itself
        if hyp and u_cov is not None:
            if abs(u_cov - i_covR) > 1e-12 * sc_cov and not (math.isnan(u_cov) and math.isnan(i_covR)):
                flagged = True
                ctx.violation(dict(key0, law="report_eq_used", what="fraction"), f"{run.label}: program {nm} at t={pt['t']!r} (index {ti}): the loop used coverage {u_cov!r}, Result.get_coverage('fraction') reports {i_covR!r}", rp1)
            else:
                ctx.count("report_eq_used.held")
        # coverage used vs model
        if u_cov is None or not core.close(m_covU, u_cov, scale=sc_cov, rtol=RTOL):
            ctx.disagreements_checked += 1
            if not flagged:
                what_ = f"{run.label}: coverage of program {nm} used at t={pt['t']!r}: implementation {u_cov!r}, documented rule (coverage overwrite x dt for one-off programs capped at 1, else saturation curve of this step's capacity / current eligible; theorems coverage_from_spending, coverage_overwrite) gives {None if m_covU is None else float(m_covU)!r}"
                if prop == "C13" and m_covU is not None and u_cov is not None:
                    # the property itself: the coverage prevailing in the step is the one this step's spending / overwrites and current target sizes imply
                    ctx.violation(dict(key0, law="coverage_used"), what_, rp1)
                else:
                    ctx.brk("correspondence", what_, replay=rp1)
    return cov_model


# ----------------------------------------------------------------------------------------------------------------------
# stage 2: parameters
# ----------------------------------------------------------------------------------------------------------------------
def transfer_index(run):
    idx = {}
    ps = run.parset
    for tname in ps.transfers:
        for src in ps.transfers[tname]:
            tp = ps.transfers[tname][src]
            for tgt in tp.ts:
                idx[(src, "%s_%s_to_%s" % (tname, src, tgt))] = (tp, tgt)
    return idx


def frac_or_none(x):
    x = float(x)
    return None if not math.isfinite(x) else fr(x)


def agg_value(run, par, ti):
    """exact recomputation of a population aggregation for `par` at index ti -> Fraction | None, *without* the scale factor"""
    m = run.m
    agg = par.pop_aggregation
    pars = m._vars_by_pop[par.name]
    k = pars.index(par)
    src = m._vars_by_pop[agg[1]]
    vals = [frac_or_none(x.vals[ti]) for x in src]
    n_from, n_to = len(src), len(pars)
    if len(agg) < 3:
        W = [[Fraction(1)] * n_to for _ in range(n_from)]
    else:
        mat = m.interactions[agg[2]][:, :, ti]
        W = [[frac_or_none(mat[i, j]) for j in range(mat.shape[1])] for i in range(mat.shape[0])]
    if agg[0] in ("SRC_POP_AVG", "SRC_POP_SUM"):
        row = [W[i][k] for i in range(len(W))]  # weights.T[k, :]
    else:
        row = list(W[k])
    if len(agg) == 4:
        wv = [frac_or_none(x.vals[ti]) for x in m._vars_by_pop[agg[3]]]
        if any(w is None for w in wv):
            return None
        row = [None if a is None else a * b for a, b in zip(row, wv)]
    if any(a is None for a in row) or any(v is None for v in vals) or len(row) != len(vals):
        return None
    if agg[0] in ("SRC_POP_AVG", "TGT_POP_AVG"):
        norm = sum(row)
        if norm == 0:
            norm = Fraction(1)
        row = [a / norm for a in row]
    return sum(a * v for a, v in zip(row, vals))


def fcn_value(par, ti):
    """`_fcn(**dep_vals)` on the final same-step values (flows as annual rates); float (may be NaN) or None when not evaluable"""
    from atomica import model as M

    dep_vals = {}
    for dep_name, deps in par.deps.items():
        tot = 0.0
        for dep in deps:
            if isinstance(dep, M.Link):
                tot += float(dep.vals[ti]) / float(dep.dt)
            else:
                tot += float(dep.vals[ti])
        dep_vals[dep_name] = tot
    dep_vals["t"] = float(par.t[ti])
    dep_vals["dt"] = float(par.dt)
    try:
        with np.errstate(all="ignore"):
            return float(par._fcn(**dep_vals))
    except Exception:
        return None


def par_limits(run, par, tr):
    """limits from the framework table (transfers: from the units), independent of `par.limits`"""
    if tr is not None:
        u = par.units
        return (fr(TOL_TRANSFER_DURATION), None) if u == "duration" else (Fraction(0), None)
    row = run.fw.pars.loc[par.name]
    lo, hi = float(row["minimum value"]), float(row["maximum value"])
    return (fr(lo) if math.isfinite(lo) else None, fr(hi) if math.isfinite(hi) else None)


class ParInfo:
    pass


def par_static(run, par, tridx):
    """everything about one Parameter object that does not depend on the time index"""
    m, ps = run.m, run.parset
    info = ParInfo()
    name, pop = par.name, par.pop.name
    info.par, info.name, info.pop = par, name, pop
    tr = tridx.get((pop, name))
    info.tr = tr
    info.derivative = bool(par.derivative)
    if tr is not None:
        tp, tgt = tr
        info.scale = fr(tp.y_factor[tgt]) * fr(tp.meta_y_factor)
        with np.errstate(all="ignore"):
            info.interp = np.asarray(tp.interpolate(m.t, tgt), dtype=float)
        info.skip = None
        info.has_fcn = False
    else:
        cp = ps.pars[name]
        info.scale = fr(cp.meta_y_factor) * (fr(cp.y_factor[pop]) if pop in cp.y_factor else Fraction(1))
        if cp.has_values(pop):
            with np.errstate(all="ignore"):
                info.interp = np.asarray(cp.interpolate(m.t, pop), dtype=float)
        else:
            info.interp = None
        sk = cp.skip_function[pop] if pop in cp.skip_function else None
        info.skip = None if not sk else (float(sk[0]), float(sk[1]))
        f = run.fw.pars.at[name, "function"]
        info.has_fcn = isinstance(f, str)
    info.mode = "d" if par._is_dynamic else ("p" if par._precompute else "o")
    info.agg = bool(par.pop_aggregation)
    info.units = units_code(par.units)
    info.lim = par_limits(run, par, tr)
    info.in_loop = name in run.m_dynamic_names
    info.covout = run.progset.covouts.get((name, pop)) if (run.progset is not None and (name, pop) in run.progset.covouts) else None
    return info


def window_tokens(w):
    if w is None:
        return "none"
    lo, hi = w
    return f"{q(lo)} {'inf' if math.isinf(hi) else q(hi)}"


def par_point(run, info, ti, cov_model):
    """-> (request, aux) for one (parameter, population, time index)"""
    m, par = run.m, info.par
    t, dt = float(m.t[ti]), float(m.dt)
    data = None
    if info.interp is not None and math.isfinite(info.interp[ti]):
        data = fr(info.interp[ti]) * info.scale
    fcn = None
    aggv = "noagg"
    fval = None
    if info.has_fcn and not info.agg:
        fval = fcn_value(par, ti)
        if fval is not None and math.isfinite(fval):
            fcn = fr(fval) * info.scale
    if info.agg:
        a = agg_value(run, par, ti)
        aggv = qf(None if a is None else a * info.scale)
    active = None
    if run.progset is not None and run.instr is not None and m.programs_active:
        active = (float(run.instr.start_year), float(run.instr.stop_year))
    popsize = 0.0
    if info.units == "n" and par.links:
        popsize = float(sum(float(l.source.vals[ti]) for l in par.links))
    lo, hi = info.lim
    toks = ["par-eval", "spec", q(t), q(dt), qf(data), str(int(info.has_fcn)), qf(fcn), info.mode, aggv, window_tokens(info.skip), window_tokens(active),
            str(int(info.in_loop)), info.units, qv(popsize) if math.isfinite(popsize) else "0", "none" if lo is None else q(lo), "none" if hi is None else q(hi), "|"]
    tail_kind = "none"
    stage_scale = 0.0
    if info.agg:
        try:
            stage_scale = float(abs(info.scale)) * max([abs(float(x.vals[ti])) for x in m._vars_by_pop[par.pop_aggregation[1]] if math.isfinite(float(x.vals[ti]))] + [0.0])
        except Exception:
            stage_scale = 0.0
    co = info.covout
    ambiguous = False
    if co is not None:
        names = list(co.progs.keys())
        covs = []
        for nme in names:
            cv = cov_model.get((nme, ti))
            covs.append("nan" if (cv is None or cv == "err") else q(cv))
        ex = parse_imp(co.imp_interaction, names)
        osc = max([abs(float(co.baseline))] + [abs(float(v)) for v in co.progs.values()] + [abs(v) for _, v in ex])
        conv = abs(popsize) / dt if info.units == "n" else (1.0 / dt if info.units == "f" else 1.0)
        stage_scale = max(stage_scale, osc * conv)
        # rounding can decide the code's sort by |outcome - baseline| / the `sum(cov) > 1` branch differently from exact arithmetic:
        # then the outcome the loop obtained is passed on literally (the outcome rule itself is C12's subject)
        ambiguous = not covout_order_consistent(co) or covout_sum_ambiguous(co, [cov_model.get((nme, ti)) for nme in names])
        if ambiguous:
            oc = run.outcome_calls.get(ti)
            u_out = oc[1].get((info.name, info.pop)) if oc is not None else None
            toks += ["lit", q(u_out) if (u_out is not None and math.isfinite(u_out)) else "0"]
            tail_kind = "lit"
        else:
            toks += [co.cov_interaction, q(co.baseline), str(len(names))]
            for nme, cv in zip(names, covs):
                toks += [q(co.progs[nme]), cv]
            toks.append(str(len(ex)))
            for b, v in ex:
                toks += [str(b), q(v)]
            tail_kind = "covout"
    else:
        toks.append("none")
    aux = {"data": data, "fcn": fcn, "fval": fval, "popsize": popsize, "active": active is not None and active[0] <= t <= active[1], "t": t,
           "skipped": info.skip is not None and info.skip[0] <= t <= info.skip[1], "tail": tail_kind, "scale": stage_scale, "ambiguous": ambiguous}
    return " ".join(toks), aux


def clip_f(x, lim):
    lo, hi = lim
    if lo is not None and x < lo:
        x = float(lo)
    if hi is not None and x > hi:
        x = float(hi)
    return x


def direct_oracle_c13(run, info, ti, aux):
    """the property's own predicate on the implementation: par.vals[ti] == clip(convert(get_outcomes(get_coverage('fraction')[ti])))"""
    m, res = run.m, run.res
    with np.errstate(all="ignore"):
        frac = run.rep_fraction
        pc = {k: np.asarray(v, dtype=float)[[ti]] for k, v in frac.items()}
        try:
            out = float(run.progset.covouts[(info.name, info.pop)].get_outcome(pc))
        except Exception as e:  # noqa
            return None, f"get_outcome raised {type(e).__name__}: {e}"
    dt = float(m.dt)
    if info.units == "n":
        out = out * (aux["popsize"] / dt)
    elif info.units == "f":
        out = out / dt
    return clip_f(out, info.lim), None


def order_check(ctx, run, rp):
    """`_exec_order['dynamic_pars']` / `['all_pars']` expanded over populations are topological for the recorded dependencies"""
    from atomica import model as M

    m = run.m
    nodes = []
    for pop in m.pops:
        for par in pop.pars:
            nodes.append(par)
    idx = {id(p): i for i, p in enumerate(nodes)}
    deps = []
    weight_deps = set()  # (parameter index, dependency index) pairs that come only from the weighting variable of an aggregation
    n_deriv_deps = 0
    for par in nodes:
        d = []
        for objs in par.deps.values():
            for o in objs:
                if isinstance(o, M.Parameter):
                    if o.derivative:
                        n_deriv_deps += 1
                    else:
                        d.append(idx[id(o)])
        if par.pop_aggregation:
            for pos in (1, 3):
                if len(par.pop_aggregation) > pos and par.pop_aggregation[pos] in m._vars_by_pop:
                    for o in m._vars_by_pop[par.pop_aggregation[pos]]:
                        if isinstance(o, M.Parameter):
                            if o.derivative:
                                n_deriv_deps += 1
                            else:
                                if pos == 3 and idx[id(o)] not in d:
                                    weight_deps.add((idx[id(par)], idx[id(o)]))
                                d.append(idx[id(o)])
        deps.append(sorted(set(d)))
    if n_deriv_deps:
        ctx.count("order.derivative_dependency(excluded)", n_deriv_deps)
    reqs = []
    offenders = {}
    for which in ("dynamic_pars", "all_pars"):
        order = [idx[id(p)] for name in m._exec_order[which] for p in m._vars_by_pop[name] if id(p) in idx]
        where = {n_: k for k, n_ in enumerate(order)}
        offenders[which] = [(p_, d_) for p_ in order for d_ in deps[p_] if d_ in where and where[d_] >= where[p_]]
        reqs.append(f"par-order {len(order)} " + " ".join(map(str, order)) + f" {len(nodes)} " + " ".join(f"{len(d)} " + " ".join(map(str, d)) if d else "0" for d in deps))
    reps = core.drive([" ".join(rq.split()) for rq in reqs])
    run.order_ok = all(rep == "1" for rep in reps)
    all_off = offenders["dynamic_pars"] + offenders["all_pars"]
    run.order_case = "aggregation-weight-not-ordered" if (all_off and all(o in weight_deps for o in all_off)) else "not-topological"
    for which, rep in zip(("dynamic_pars", "all_pars"), reps):
        ctx.hyp_checked += 1
        if (rep == "1") != (not offenders[which]) and len(set(m._exec_order[which])) == len(m._exec_order[which]):
            ctx.brk("correspondence", f"{run.label}: depsBefore of the driver ({rep}) and the harness ({offenders[which][:3]}) differ for {which}", replay=rp)
        if rep == "1":
            ctx.hyp_held += 1
            ctx.count("order.topological." + which)
        else:
            off = [(nodes[a].id, nodes[b].id) for a, b in offenders[which][:3]]
            ctx.violation({"api": "Model._set_exec_order", "case": run.order_case, "order": which},
                          f"{run.label}: _exec_order[{which!r}] is not a topological order of the recorded parameter dependencies: (parameter, dependency visited later) = {off}", rp)
    # dependencies of loop parameters that the loop does not visit must be static during the loop
    dyn = set(m._exec_order["dynamic_pars"])
    for par in nodes:
        if par.name in dyn:
            for i in deps[idx[id(par)]]:
                d = nodes[i]
                if d.name not in dyn:
                    ctx.hyp_checked += 1
                    if d.fcn_str and not d._precompute:
                        ctx.violation({"api": "Parameter.set_dynamic", "case": "loop-parameter-depends-on-postcompute"}, f"{run.label}: loop parameter {par.id} depends on {d.id}, which is only computed after the run", rp)
                    else:
                        ctx.hyp_held += 1


def run_parameters(ctx, run, prop, rp, tis, cov_model):
    m = run.m
    tridx = transfer_index(run)
    infos = []
    n_deriv = 0
    for pop in m.pops:
        for par in pop.pars:
            if par.vals is None:
                continue
            info = par_static(run, par, tridx)
            if info.derivative:
                n_deriv += 1
                continue
            if info.has_fcn and not info.agg and par._fcn is None:
                continue
            if info.has_fcn and any(tok in (par.fcn_str or "") for tok in ("rand",)):
                ctx.count("par.random_function(skipped)")
                continue
            infos.append(info)
    if n_deriv:
        ctx.count("par.derivative(excluded)", n_deriv)
    # independent membership of the loop
    reqs, meta = [], []
    for info in infos:
        for ti in tis:
            rq, aux = par_point(run, info, ti, cov_model)
            reqs.append(rq)
            meta.append((info, ti, aux))
    reps = core.drive(reqs)
    per_par = {}
    cur_checks = []  # (request for the faithful `evalOneCurrent`, implementation value, description)
    for (info, ti, aux), rq_, rep in zip(meta, reqs, reps):
        par = info.par
        impl = float(par.vals[ti])
        toks = rep.split()
        ctx.traces += 1
        stage = classify(info, aux)
        ctx.count("stage." + stage)
        pp = per_par.setdefault((info.name, info.pop), {"stages": set(), "clip": False, "scale": info.scale != 1})
        pp["stages"].add(stage)
        targeted_now = info.covout is not None and aux["active"] and info.in_loop
        if targeted_now and aux["ambiguous"]:
            ctx.ambiguous += 1
        m_out = None
        if rep.startswith("err") or not toks:
            ctx.count("par.model_err")
            continue
        if aux["tail"] == "covout":
            if len(toks) != 2:
                ctx.brk("correspondence", f"{run.label}: driver reply {rep[:60]!r} for {par.id} index {ti}", replay=rp)
                continue
            m_out, m_val = unq(toks[0]), unq(toks[1])
            if toks[0] == "nan":
                ctx.count("par.nan_coverage(skipped)")
                continue
        else:
            m_val = unq(toks[0])
        lo, hi = info.lim
        if m_val is not None and ((lo is not None and m_val == lo) or (hi is not None and m_val == hi)):
            ctx.count("clip.at_limit")
            if stage.startswith("program"):
                ctx.count("clip.program_value")
            elif stage.startswith("function"):
                ctx.count("clip.function_value")
            pp["clip"] = True
        scale = max(abs(impl) if math.isfinite(impl) else 0.0, abs(float(m_val)) if m_val is not None else 0.0, 1e-300)
        if stage.startswith("program") or stage == "aggregation":
            scale = max(scale, aux["scale"])
        agree = core.close(m_val, impl, scale=scale, rtol=RTOL)
        rp1 = dict(rp, par=info.name, pop=info.pop, ti=ti, t=aux["t"])
        # ---- recorded in-loop outcome vs model outcome
        if targeted_now and m_out is not None:
            oc = run.outcome_calls.get(ti)
            if oc is not None and (info.name, info.pop) in oc[1]:
                u_out = oc[1][(info.name, info.pop)]
                ctx.traces += 1
                osc = max(abs(float(info.covout.baseline)), max([abs(float(v)) for v in info.covout.progs.values()] + [0.0]), 1e-300)
                if not core.close(m_out, u_out, scale=osc, rtol=RTOL):
                    ctx.disagreements_checked += 1
                    ctx.brk("correspondence", f"{run.label}: outcome of {par.id} at index {ti}: get_outcomes returned {u_out!r}, model {float(m_out)!r}", replay=rp1)
        if agree:
            # the direct oracle of C13 on a sample of targeted points (cheap, independent of the model)
            if targeted_now and not info.agg:  # C13 "set exactly"; C06 "replaced by the program outcome while programs are active and target it"
                want, err = direct_oracle_c13(run, info, ti, aux)
                if err is None and want is not None and math.isfinite(want) and not core.close(fr(want), impl, scale=scale, rtol=1e-9):
                    if stale_popsize_case(run, info, ti):
                        pass
                    elif run.junction_progs & set(info.covout.progs.keys()):
                        ctx.count("oracle.junction_target(excluded)")
                    else:
                        ctx.violation({"api": "Result.get_coverage", "law": "oracle", "units": info.units}, f"{run.label}: {par.id} at t={aux['t']!r}: stored {impl!r} but get_outcomes(get_coverage('fraction')) converted and clipped gives {want!r}", rp1)
            continue
        # ---- disagreement: evaluate the property's predicate directly on the implementation
        ctx.disagreements_checked += 1
        want = None if m_val is None else float(m_val)
        what = f"{run.label}: {par.id} at index {ti} (t={aux['t']!r}), stage {stage}: stored {impl!r}, the pipeline gives {want!r}"
        key = {"api": "Model.update_pars", "stage": stage, "units": info.units}
        if stage == "skip.precompute" and math.isnan(impl):
            cur_checks.append((rq_.replace("par-eval spec ", "par-eval cur ", 1), impl, f"{par.id} index {ti}"))
            key = {"api": "Model.build", "case": "precompute-skip-nan"}
            what += " (precompute function parameter inside its skip window keeps the preallocated NaN instead of the scenario value)"
        elif not run.order_ok and (stage == "aggregation" or stage.startswith("function")):
            key = {"api": "Model._set_exec_order", "case": run.order_case, "order": "value"}
            what += " (evaluated before one of its dependencies: the execution order is not topological)"
        elif stage.startswith("program") and info.units == "n" and ti == 0 and stale_popsize_case(run, info, ti):
            key = {"api": "Parameter.source_popsize", "case": "stale-cache-index0"}
            what += f" (source_popsize cached before the initial junction flush: used {run.pre_popsize.get(par.id)!r}, current {aux['popsize']!r})"
        # independent float recomputation (oracle) -- is the implementation's value really off?
        ok_py = py_oracle(run, info, ti, aux, impl)
        if ok_py:
            ctx.brk("correspondence", what + " -- but the independent recomputation accepts the implementation", replay=rp1)
        else:
            ctx.violation(key, what, rp1)
    # where the implementation departs from the specification in the known way, the faithful model of the current code must agree with it
    if cur_checks:
        for (rq_, impl, what), rep in zip(cur_checks, core.drive([c[0] for c in cur_checks])):
            toks = rep.split()
            if toks and core.close(unq(toks[-1]), impl, scale=1.0, rtol=RTOL):
                ctx.count("current_model.agrees")
            else:
                ctx.brk("correspondence", f"{run.label}: evalOneCurrent gives {rep!r} for {what} but the implementation stored {impl!r}", replay=rp)
    for (name, pop), pp in per_par.items():
        nontriv = bool(pp["stages"] - {"data"}) or pp["clip"] or pp["scale"]
        ctx.case({"run": rp.get("id"), "par": name, "pop": pop}, nontrivial=nontriv)


def classify(info, aux):
    if info.covout is not None and aux["active"] and info.in_loop and not (info.agg and not aux["skipped"]):
        if info.mode == "o" and info.has_fcn and not info.agg and not aux["skipped"]:
            return "function.postcompute"
        return "program." + {"n": "number", "f": "pertime", "o": "other"}[info.units]
    if info.agg:
        return "skip.aggregation" if aux["skipped"] else "aggregation"
    if info.has_fcn:
        if aux["skipped"]:
            return "skip." + {"d": "dynamic", "p": "precompute", "o": "postcompute"}[info.mode]
        return "function." + {"d": "dynamic", "p": "precompute", "o": "postcompute"}[info.mode]
    if info.tr is not None:
        return "data.transfer"
    return "data"


def py_oracle(run, info, ti, aux, impl):
    """independent float recomputation of the specification for one point; True when the implementation's value satisfies it"""
    stage = classify(info, aux)
    if stage.startswith("program"):
        oc = run.outcome_calls.get(ti)
        if oc is None or (info.name, info.pop) not in oc[1]:
            return False
        v = oc[1][(info.name, info.pop)]
        dt = float(run.m.dt)
        if info.units == "n":
            v = v * (aux["popsize"] / dt)
        elif info.units == "f":
            v = v / dt
    elif stage in ("aggregation",):
        a = agg_value(run, info.par, ti)
        v = float("nan") if a is None else float(a * info.scale)
    elif stage.startswith("function"):
        v = float("nan") if aux["fcn"] is None else float(aux["fcn"])
    else:
        v = float("nan") if aux["data"] is None else float(aux["data"])
    v = clip_f(v, info.lim) if math.isfinite(v) else v
    if math.isnan(v):
        return math.isnan(impl)
    return math.isfinite(impl) and abs(v - impl) <= 1e-9 * max(abs(v), abs(impl), aux.get("scale", 0.0), 1e-300)


def stale_popsize_case(run, info, ti):
    """index 0, number parameter, and the initial junction flush changed the size of its source compartments"""
    if ti != 0 or info.units != "n" or not info.par.links:
        return False
    pre = run.pre_popsize.get(info.par.id)
    if pre is None:
        return False
    now = float(sum(float(l.source.vals[0]) for l in info.par.links))
    return abs(pre - now) > 1e-12 * max(abs(now), 1.0)


# ----------------------------------------------------------------------------------------------------------------------
# one run end to end
# ----------------------------------------------------------------------------------------------------------------------
def observe_preflush(m, store):
    """record the source population of every number parameter before the initial junction flush (from outside)"""
    orig = m.flush_junctions

    def wrapped():
        for pop in m.pops:
            for par in pop.pars:
                if par.units == "number" and par.links:
                    store[par.id] = float(sum(float(l.source[0]) for l in par.links))
        orig()

    m.flush_junctions = wrapped


def check_run(ctx, prop, build, label, rp, max_ti=None):
    """build() -> (settings, fw, parset, progset, instr); runs, observes and compares everything"""
    from atomica.model import Model, JunctionCompartment
    from atomica.results import Result

    import atomica as at
    from atomica.model import BadInitialization

    refusals = (at.InvalidFramework, BadInitialization, AssertionError, at.ModelError)
    settings, fw, parset, progset, instr = build()
    # observed run (pre-flush popsize recorded through a wrapper installed between construction and process)
    run = Run()
    run.label = label
    m = impl_call("Model()", lambda: Model(settings, fw, parset, progset, instr), refusals)
    run.m, run.fw, run.parset = m, fw, parset
    run.caller_instr, run.caller_progset = instr, progset
    # "a scenario on a function parameter suspends the function from its first overwrite year onward": stated from the scenario SPEC, independently of what get_parset recorded
    for s_ in ((rp.get("spec") or {}).get("scen") or []):
        try:
            has_fn = isinstance(fw.pars.at[s_["par"], "function"], str)
        except Exception:
            has_fn = False
        if not has_fn:
            continue
        sk = parset.pars[s_["par"]].skip_function[s_["pop"]] if s_["pop"] in parset.pars[s_["par"]].skip_function else None
        y0 = float(min(s_["t"]))
        ctx.count("scenario.function_suspension_checked")
        if not sk or abs(float(sk[0]) - y0) > 1e-9 or math.isfinite(float(sk[1])):
            ctx.violation({"api": "ParameterScenario.get_parset", "case": "function-not-suspended"},
                          f"{label}: the scenario overwrites the function parameter {s_['par']} in population {s_['pop']} from {y0}, but the function is "
                          f"{'not suspended there at all' if not sk else 'suspended over ' + repr(tuple(float(x) for x in sk))} (it would replace the scenario values)", rp)
    run.outcome_calls, run.cov_calls, run.n_outcome_calls, run.pre_popsize = {}, {}, {}, {}
    observe_preflush(m, run.pre_popsize)
    ps = m.progset
    wrapped = [(m, "flush_junctions")]
    if ps is not None:
        orig_go = ps.get_outcomes

        def go(prop_coverage):
            out = orig_go(prop_coverage)
            ti = m._t_index
            run.outcome_calls[ti] = ({k: float(np.asarray(v, dtype=float).ravel()[0]) for k, v in prop_coverage.items()}, {k: float(v) for k, v in out.items()})
            run.n_outcome_calls[ti] = run.n_outcome_calls.get(ti, 0) + 1
            return out

        ps.get_outcomes = go
        wrapped.append((ps, "get_outcomes"))
        for prog in ps.programs.values():
            orig = prog.get_prop_covered

            def gpc(tvec, capacity, eligible, _o=orig, _n=prog.name):
                out = _o(tvec, capacity, eligible)
                if np.ndim(tvec) == 0 and np.ndim(capacity) == 0:
                    run.cov_calls[(_n, m._t_index)] = (float(tvec), float(capacity), float(eligible), float(np.asarray(out, dtype=float).ravel()[0]))
                return out

            prog.get_prop_covered = gpc
            wrapped.append((prog, "get_prop_covered"))
    def _process():
        with np.errstate(all="ignore"):
            m.process()

    try:
        impl_call("Model.process", _process, refusals)
    finally:
        for obj, name in wrapped:
            try:
                delattr(obj, name)
            except AttributeError:
                pass
    run.res = Result(model=m, parset=parset)
    if not all(np.isfinite(np.asarray(c.vals, dtype=float)).all() for pop_ in m.pops for c in pop_.comps):
        # an ill-posed model of the extreme regime (people initialised in a junction whose proportions are all zero: the flush is 0/0; C04's business): parameter values that read the NaN stocks are not compared
        ctx.count("run.nonfinite_stocks(skipped)")
        return run
    run.progset, run.instr = m.progset, m.program_instructions
    run.m_dynamic_names = set(m._exec_order["dynamic_pars"])
    # independent statement of which names the loop must visit
    want_loop = set()
    for pop in m.pops:
        for par in pop.pars:
            if par._is_dynamic or (run.progset is not None and par.name in run.progset.pars):
                want_loop.add(par.name)
    want_loop &= set(fw.pars.index)
    ctx.hyp_checked += 1
    if want_loop == run.m_dynamic_names:
        ctx.hyp_held += 1
    else:
        ctx.violation({"api": "Model._set_exec_order", "case": "dynamic-list"}, f"{label}: dynamic_pars {sorted(run.m_dynamic_names)} != dynamic or program-listed parameters {sorted(want_loop)}", rp)
    T = len(m.t)
    tis = list(range(T))
    if max_ti is not None and T > max_ti:
        keep = {0, 1, T - 1}
        if run.instr is not None:
            for ti in range(T):
                t = float(m.t[ti])
                if abs(t - run.instr.start_year) <= 1.5 * m.dt or (math.isfinite(run.instr.stop_year) and abs(t - run.instr.stop_year) <= 1.5 * m.dt):
                    keep.add(ti)
        rest = [i for i in range(T) if i not in keep]
        keep |= set(ctx.rng.sample(rest, max(0, min(len(rest), max_ti - len(keep)))))
        tis = sorted(keep)
    run.junction_progs = set()
    cov_model = {}
    if run.progset is not None and run.instr is not None:
        for prog in run.progset.programs.values():
            for pn in prog.target_pops:
                for cn in prog.target_comps:
                    if isinstance(m.get_pop(pn).get_comp(cn), JunctionCompartment):
                        run.junction_progs.add(prog.name)
        def _frac():
            with np.errstate(all="ignore"):
                return run.res.get_coverage("fraction")

        run.rep_fraction = impl_call("Result.get_coverage", _frac)
        cov_model = run_programs(ctx, run, prop, rp, tis)
        # targeted parameters must be visited by the loop and must not be output-only (hypotheses of precedence_program)
        for (pname, popname) in run.progset.covouts:
            try:
                par = m.get_pop(popname).get_par(pname)
            except Exception:
                continue
            ctx.hyp_checked += 1
            if pname in run.m_dynamic_names and not (par.fcn_str and not par._is_dynamic and not par._precompute):
                ctx.hyp_held += 1
            else:
                ctx.count("hyp.targeted_not_in_loop_or_postcompute")
        # at index 0 the loop runs twice (before and after the initial flush)
        if is_active(run, 0):
            ctx.count("ti0.active")
            if run.n_outcome_calls.get(0, 0) == 2:
                ctx.count("ti0.double_update")
    order_check(ctx, run, rp)
    run_parameters(ctx, run, prop, rp, tis, cov_model)
    return run


# ----------------------------------------------------------------------------------------------------------------------
# generated models
# ----------------------------------------------------------------------------------------------------------------------
def _ser(r, gen, t0, t1):
    """a program-book series: constant assumption, or 1-3 dated points (some before / on / off the grid)"""
    x = r.random()
    if x < 0.45:
        return {"a": gen(r), "t": [], "v": []}
    n = r.choice([1, 2, 3])
    cand = [t0 - 2, t0, t0 + 0.25 * (t1 - t0), t0 + 0.5 * (t1 - t0), t0 + 0.37 * (t1 - t0), t1, t1 + 3]
    ts = sorted(r.sample(cand, n))
    return {"a": None, "t": ts, "v": [gen(r) for _ in ts]}


def gen_spec(r, regime, prop, want_progs=True):
    feats = {"nsteps": r.randint(5, 14), "npops": r.choice([1, 2, 2, 3]), "junctions": r.choice([0, 1, 1, 2]), "timed": r.choice([0, 0, 1]), "functions": r.random() < 0.6}
    spec = genfw.random_spec(r, regime, feats)
    pops = spec["pops"]
    start, end, dt = spec["settings"]
    stocks = [c["name"] for c in spec["comps"] if c["kind"] == "normal"]
    norm = [c for c in stocks if c.startswith("c")]
    juncs = [c["name"] for c in spec["comps"] if c["kind"] == "junction"]
    pars = spec["pars"]
    byname = {p["name"]: p for p in pars}
    trans = spec["transitions"]

    def newpar(name, fmt, function=None, value=None, databook=None, **kw):
        p = {"name": name, "format": fmt, "timescale": None, "function": function, "min": None, "max": None, "timed": False, "targetable": False,
             "databook": (function is None) if databook is None else databook, "value": value or {}}
        p.update(kw)
        pars.append(p)
        byname[name] = p
        return p

    def pv(lo, hi):
        return {pop: genfw._series(r, "calibrated", "probability", start) if r.random() < 0.4 else round(lo + r.random() * (hi - lo), 3) for pop in pops}

    tpars = [p for p in pars if not p["timed"] and p["format"] != "proportion" and any(t[2] == p["name"] for t in trans)]
    a, b = r.choice(norm), r.choice(norm)
    # --- data parameters that only feed functions, dependency chains and diamonds
    newpar("xd0", r.choice(["probability", "proportion", "rate"]), value=pv(0.05, 0.9))
    newpar("xd1", r.choice(["probability", "proportion"]), value=pv(0.1, 1.5))
    chain = r.random() < 0.7
    if chain and tpars:
        newpar("xf0", "proportion", function=r.choice([f"0.5*xd0 + 0.3*{a}/max(alive,1)", f"xd0*{a}/({a}+{b}+1)", f"min(xd0, {a}/max(alive,1))"]))
        newpar("xf1", "proportion", function=r.choice(["xf0*xd1 + 0*t", "xf0 + 0.1*xd1", "max(xf0 - 0.2, 0)*xd1"]))
        tgt = r.choice(tpars)
        if r.random() < 0.5:
            newpar("xf2", "proportion", function=r.choice(["xf0 + xd1", "xf0*0.5"]))
            tgt["function"] = r.choice(["xf1*xf2", "0.5*(xf1 + xf2)"])
        else:
            tgt["function"] = r.choice(["0.8*xf1", "xf1 + 0.05"])
        tgt["databook"] = r.random() < 0.5  # function parameters with a databook page: scenario values can be entered
        if not tgt["databook"]:
            tgt["value"] = {}
        tpars = [p for p in tpars if p is not tgt]
    # --- precompute: function of data parameters / time only, drives a transition
    if tpars and r.random() < 0.6:
        tgt = r.choice(tpars)
        tgt["function"] = r.choice(["0.6*xd0*xd1", "xd0 + 0*t", "0.1 + 0.01*(t - %s)" % start, "min(xd0, 0.3)"])
        tgt["databook"] = r.random() < 0.6
        if not tgt["databook"]:
            tgt["value"] = {}
        tgt["_precompute"] = True
        tpars = [p for p in tpars if p is not tgt]
    # --- output-only (postcompute) parameters: flows, parameters, characteristics
    plain = [t for t in trans if t[0] in stocks and t[1] in stocks and t[2] != ">"]
    if plain and r.random() < 0.7:
        s, d, pn = r.choice(plain)
        newpar("xo0", "number", function=r.choice([f"{s}:{d}", f"{pn}:flow", f"{s}:"]))
        newpar("xo1", "proportion", function=r.choice(["xo0/max(alive,1)", f"xo0*xd0", f"{pn}*2 + xd1"]))
    # --- population aggregations
    if len(pops) >= 2 and r.random() < 0.6:
        pairs = [[x, y, r.choice([0.0, 1.0, 0.5, round(r.random() * 2, 2)])] for x in pops for y in pops]
        if all(p_[2] == 0 for p_ in pairs):
            pairs[0][2] = 1.0
        spec["interactions"] = list(spec.get("interactions") or []) + [{"name": "wi0", "pairs": pairs}]
        var = r.choice(["xd0", a, "alive"] + (["xf0"] if "xf0" in byname else []))
        fn = r.choice(["SRC_POP_AVG", "TGT_POP_AVG", "SRC_POP_SUM", "TGT_POP_SUM"])
        forms = [f"{fn}({var}, wi0, alive)", f"{fn}({var}, wi0)", f"{fn}({var})", f"{fn}({var}, wi0, {a})"]
        if prop == "C06":  # weighting by a parameter (its place in the execution order is C06's subject)
            forms += [f"{fn}({var}, wi0, xd1)"] + ([f"{fn}(xd0, wi0, xf0)"] if "xf0" in byname else [])
        form = r.choice(forms)
        newpar("xa0", "proportion", function=form, databook=r.random() < 0.3)
        if tpars and r.random() < 0.6 and var in ("xd0", "xf0"):
            tgt = r.choice(tpars)
            tgt["function"] = "0.5*xa0"
            tgt["databook"] = False
            tgt["value"] = {}
            tpars = [p for p in tpars if p is not tgt]
    # --- a derivative parameter (Euler state; excluded from the comparison, counted)
    if r.random() < 0.15:
        newpar("xv0", "proportion", function=f"0.01*{a}/max(alive,1) - 0.1*xv0", databook=True, value={pop: 0.2 for pop in pops}, derivative=True)
    # --- limits and calibration factors
    yf = {}
    for p in pars:
        if p["timed"]:
            continue
        if r.random() < 0.35:
            lo = r.choice([0, 0, 0.05, 0.2, None])
            hi = r.choice([None, None, 0.3, 1, 2, 0.6])
            if lo is not None and hi is not None and lo > hi:
                lo, hi = hi, lo
            if p["format"] == "duration" and lo in (0, None):
                lo = 0.05
            p["min"], p["max"] = lo, hi
        if r.random() < 0.3 and p["format"] != "duration":
            yf[p["name"]] = {pop: r.choice([1.0, 0.5, 2.0, 1.3, 0.0, 0.77]) for pop in pops}
            if r.random() < 0.5:
                yf[p["name"]]["_meta"] = r.choice([1.0, 0.9, 2.0, 1.1])
    spec["y_factors"] = yf
    if spec.get("transfers") and zlib.crc32(repr(spec["transfers"]).encode()) % 2 == 0:
        # calibration factors on transfers (decided from the spec, so the random stream of the rest is unchanged)
        spec["transfer_y_factors"] = {t["name"]: dict({"_meta": [0.9, 2.0, 1.1, 0.5][k % 4]}, **{f"{a}>{b}": [1.0, 0.5, 1.3][(i + k) % 3] for i, (a, b, _v) in enumerate(t["pairs"])})
                                      for k, t in enumerate(spec["transfers"], start=zlib.crc32(repr(spec["settings"]).encode()) % 4)}
    # --- programs
    if want_progs:
        cand = [p for p in pars if not p["timed"] and p["name"] not in ("xo0", "xo1", "xv0", "xa0") and not (p.get("function") or "").startswith(("SRC_", "TGT_"))
                and not (p["format"] == "number" and not any(t[2] == p["name"] for t in trans))]
        r.shuffle(cand)
        # prefer a spread of formats
        chosen, seen = [], set()
        for p in cand:
            if p["format"] not in seen or r.random() < 0.25:
                chosen.append(p)
                seen.add(p["format"])
            if len(chosen) >= r.choice([2, 3, 4, 5]):
                break
        for p in chosen:
            p["targetable"] = True
            if r.random() < 0.5:  # limits that the converted program outcomes cross
                if p["format"] == "number":
                    p["min"], p["max"] = r.choice([None, 1.0, 5.0]), r.choice([None, 20.0, 60.0])
                elif p["format"] in ("probability", "rate"):
                    p["min"], p["max"] = r.choice([None, 0, 0.1]), r.choice([None, 0.5, 1, 2])
                elif p["format"] == "duration":
                    p["min"], p["max"] = r.choice([0.05, 0.8]), r.choice([None, 1.5, 4.0])
                else:
                    p["min"], p["max"] = r.choice([None, 0, 0.2]), r.choice([None, 0.8, 1])
        nprog = r.choice([1, 2, 3, 3, 4])
        programs = []
        t0, t1 = start, end
        for k in range(nprog):
            one_off = r.random() < 0.6
            tp = r.sample(pops, r.randint(1, len(pops)))
            tc = r.sample(stocks, r.randint(1, min(3, len(stocks))))
            if juncs and r.random() < 0.04:
                tc.append(r.choice(juncs))
            uc = r.choice([1.0, 2.5, 10.0, 40.0])
            level = r.choice([0.0, 20.0, 100.0, 400.0, 2000.0, 1e4]) * uc * (1.0 if not one_off else 1.0 / max(dt, 0.05) * 0.3)
            prog = {"name": f"P{k}", "pops": tp, "comps": tc, "uc_units": r.choice(["$/person", "$/person (one-off)"]) if one_off else "$/person/year", "cc_units": r.choice(["people/year", "people"]),
                    "spend": _ser(r, lambda rr, level=level: float(level * rr.choice([0.0, 0.5, 1.0, 1.0, 2.0])), t0, t1),
                    "uc": _ser(r, lambda rr, uc=uc: float(uc * rr.choice([1.0, 1.0, 0.5, 2.0])), t0, t1), "cc": None, "sat": None}
            if r.random() < 0.3:
                prog["cc"] = _ser(r, lambda rr: float(rr.choice([0.0, 10.0, 50.0, 300.0, 5000.0])), t0, t1)
            if r.random() < 0.35:
                prog["sat"] = _ser(r, lambda rr: float(rr.choice([0.3, 0.5, 0.8, 0.95, 1.0, 1.5])), t0, t1)
            programs.append(prog)
        covouts = []
        for p in chosen:
            for pop in pops:
                if len(pops) > 1 and r.random() < 0.3:
                    continue  # this population is not targeted: frame
                progs_ = r.sample(programs, r.randint(1, min(3, len(programs))))
                fmt = p["format"]
                def gv():
                    if fmt == "number":
                        return r.choice([0.0, 0.02, 0.1, 0.5, 1.0]) * dt
                    if fmt in ("probability", "rate"):
                        return r.choice([0.0, 0.05, 0.2, 0.7, 1.0, 3.0]) * dt
                    if fmt == "duration":
                        return r.choice([0.5, 1.0, 2.0, 6.0])
                    return r.choice([0.0, 0.1, 0.5, 0.8, 1.0, 1.4])
                outs = {pr["name"]: float(gv()) for pr in progs_}
                c = {"par": p["name"], "pop": pop, "inter": r.choice(["additive", "nested", "random", None]), "imp": None, "baseline": float(gv()), "progs": outs}
                if len(outs) >= 2 and r.random() < 0.3:
                    ks = list(outs)
                    sub = r.sample(ks, r.randint(2, len(ks)))
                    c["imp"] = "+".join(sub) + "=" + repr(float(gv()))
                covouts.append(c)
        on_grid = [start + k * dt for k in range(int(round((end - start) / dt)) + 1)]
        st = r.choice([start, start, start - 1.0, r.choice(on_grid), r.choice(on_grid) + 0.4 * dt, on_grid[len(on_grid) // 2]])
        stop = r.choice([None, None, None, None, st + 3 * dt, max(r.choice(on_grid), st + dt), st - dt, end])
        instr = {"start": float(st), "stop": None if stop is None else float(stop), "alloc": {}, "capacity": {}, "coverage": {}}
        for prog in programs:
            if r.random() < 0.3:
                instr["alloc"][prog["name"]] = _ser(r, lambda rr: float(rr.choice([0.0, 100.0, 1000.0, 5e4])), t0, t1)
            if r.random() < 0.2:
                instr["capacity"][prog["name"]] = _ser(r, lambda rr: float(rr.choice([0.0, 10.0, 100.0, 1000.0])), t0, t1)
            if r.random() < 0.2:
                instr["coverage"][prog["name"]] = _ser(r, lambda rr: float(rr.choice([0.0, 0.3, 0.8, 1.0, 2.5])), t0, t1)
        spec["progspec"] = {"programs": programs, "covouts": covouts, "instr": instr}
    # --- parameter scenarios on function parameters (skip window) and on data parameters
    scen = []
    if prop == "C06" or r.random() < 0.25:
        fpars = [p for p in pars if p.get("function") and not p.get("derivative") and p["name"] not in ("xo0",)]
        if prop == "C13":  # the NaN a precompute parameter keeps inside its skip window is C06's finding; keep it out of C13's models
            dyn_tokens = set(stocks) | {"alive", "xf0", "xf1", "xf2", "xa0"}
            fpars = [p for p in fpars if not p.get("_precompute") and any(tok in dyn_tokens for tok in __import__("re").findall(r"[A-Za-z_][A-Za-z_0-9]*", p["function"]))]
        r.shuffle(fpars)
        for p in fpars[: r.choice([0, 1, 1, 2])]:
            pop = r.choice(pops)
            Y = r.choice([start + 2 * dt, start, start + 3.4 * dt, end - dt])
            scen.append({"par": p["name"], "pop": pop, "t": [Y, Y + 2 * dt][: r.choice([1, 2])], "y": [r.choice([0.0, 0.1, 0.4]), 0.25][: 2], "interp": r.choice(["linear", "previous"])})
            scen[-1]["y"] = scen[-1]["y"][: len(scen[-1]["t"])]
        dpars = [p for p in pars if not p.get("function") and not p["timed"] and p["format"] != "duration"]
        if dpars and r.random() < 0.4:
            p = r.choice(dpars)
            scen.append({"par": p["name"], "pop": r.choice(pops), "t": [start + 2 * dt], "y": [0.15], "interp": "linear"})
    spec["scen"] = scen
    for p in pars:
        p.pop("_precompute", None)
    return spec


def spec_sha(spec):
    import hashlib
    import json

    return hashlib.sha256(json.dumps(spec, sort_keys=True, default=str).encode()).hexdigest()[:16]


def build_from_spec(spec):
    fw, data, parset, settings = genfw.build(spec)
    progset = instr = None
    if spec.get("progspec"):
        progset, instr = build_progset(spec["progspec"], fw, data)
    parset = apply_scenarios(spec.get("scen"), parset, fw, settings)
    return settings, fw, parset, progset, instr


def run_generated(ctx, prop, n_models):
    import atomica as at
    from atomica.model import BadInitialization

    regimes = ("calibrated", "boundary", "calibrated", "extreme")
    done = rej = 0
    attempts = 0
    while done < n_models and attempts < n_models * 6:
        attempts += 1
        regime = regimes[attempts % len(regimes)]
        sub_seed = ctx.rng.randrange(1 << 30)
        rr = _random.Random(sub_seed)
        want_progs = prop == "C13" or _random.Random(sub_seed + 1).random() < 0.5
        spec = gen_spec(rr, regime, prop, want_progs)
        rp = {"kind": "generated", "id": sub_seed, "sub_seed": sub_seed, "regime": regime, "prop": prop, "want_progs": want_progs, "spec_sha": spec_sha(spec)}
        try:
            check_run(ctx, prop, lambda: build_from_spec(spec), f"generated model {sub_seed} ({regime})", rp)
        except (at.InvalidFramework, BadInitialization) as e:
            rej += 1
            continue
        except (AssertionError, at.ModelError) as e:
            rej += 1
            ctx.count("gen.refused_late:" + type(e).__name__)
            REFUSED.append((sub_seed, regime, str(e)[:160]))
            continue
        except ImplError as e:
            ctx.violation({"api": e.where, "case": "exception", "type": type(e.exc).__name__}, f"generated model {sub_seed} ({regime}): {e} [{e.tb.strip().splitlines()[-3].strip()[:140]}]", rp)
            continue
        done += 1
        ctx.count("run.generated")
        ctx.count("regime." + regime)
        if len(ctx.samples) < 3:
            ctx.samples.append({"sub_seed": sub_seed, "regime": regime, "pops": spec["pops"], "n_pars": len(spec["pars"]), "settings": spec["settings"], "programs": len((spec.get("progspec") or {}).get("programs", []))})
    ctx.extra["generator_rejections"] = ctx.extra.get("generator_rejections", 0) + rej
    if REFUSED:
        ctx.extra["refused_late"] = REFUSED[:10]
    if done < n_models:
        ctx.notes.append(f"generator produced only {done}/{n_models} runnable models")


REFUSED: list = []


# ----------------------------------------------------------------------------------------------------------------------
# directed models: situations the random stream reaches only now and then
# ----------------------------------------------------------------------------------------------------------------------
def _P(n, f, v, pops, **k):
    return dict({"name": n, "format": f, "timescale": None, "function": None, "min": None, "max": None, "timed": False, "targetable": False, "databook": True,
                 "value": {pop: v for pop in pops}}, **k)


def directed_specs(r, prop):
    out = []
    pops = ["pa"]
    dt = r.choice([0.5, 0.25, 1.0, 0.2])
    start = 2000
    if prop == "C13":
        # (a) a number parameter targeted by a program that is active at the first time index, drawing from a compartment that
        #     receives the initial junction flush: the source population changes between the two parameter updates at index 0
        for units, tscale, lim in (("number", None, (None, None)), ("rate", None, (None, None)), ("number", r.choice([1 / 12, 1 / 52]), (None, 5.0)), ("probability", 1 / 12, (0.5, None)), ("number", 1.0, (45.0, None))):
            j_init = r.choice([50.0, 20.0, 7.5])
            spec = {"comps": [{"name": "c0", "kind": "normal", "databook": True, "init": {"pa": 100.0}}, {"name": "c1", "kind": "normal", "databook": True, "init": {"pa": 10.0}},
                              {"name": "j0", "kind": "junction", "databook": True, "init": {"pa": j_init}}],
                    "characs": [], "pars": [_P("tp0", units, r.choice([10.0, 0.3]) if units == "number" else 0.2, pops, targetable=True, timescale=tscale, min=lim[0], max=lim[1]),
                                            _P("ra0", "rate", 0.1, pops), _P("pr0", "proportion", 1.0, pops)],
                    "transitions": [["c0", "c1", "tp0"], ["c1", "j0", "ra0"], ["j0", "c0", "pr0"]], "pops": pops, "transfers": [], "settings": [start, start + 5 * dt, dt],
                    "progspec": {"programs": [{"name": "P0", "pops": pops, "comps": ["c0"], "uc_units": r.choice(["$/person/year", "$/person"]), "spend": r.choice([75.0, 30.0, 400.0]), "uc": 1.0}],
                                 "covouts": [{"par": "tp0", "pop": "pa", "inter": "additive", "imp": None, "baseline": 0.0, "progs": {"P0": r.choice([0.2, 0.05]) * dt}}],
                                 "instr": {"start": float(r.choice([start, start - 1])), "stop": None}}}
            out.append((f"directed: {units} parameter (timescale {tscale}, limits {lim}) targeted from index 0, junction initialised with {j_init}", spec))
    if prop == "C06":
        # (b) a parameter scenario on a function parameter that is evaluated before the run (function of time / data parameters only)
        for fcn in ("0.1+0*t", "0.5*xd0"):
            Y = start + r.choice([2, 1, 3]) * dt
            spec = {"comps": [{"name": "c0", "kind": "normal", "databook": True, "init": {"pa": 100.0}}, {"name": "c1", "kind": "normal", "databook": True, "init": {"pa": 10.0}}],
                    "characs": [], "pars": [_P("ra0", "rate", r.choice([0.3, None]), pops, function=fcn), _P("xd0", "probability", 0.4, pops)],
                    "transitions": [["c0", "c1", "ra0"]], "pops": pops, "transfers": [], "settings": [start, start + 6 * dt, dt],
                    "scen": [{"par": "ra0", "pop": "pa", "t": [Y], "y": [r.choice([0.25, 0.0])], "interp": r.choice(["linear", "previous"])}]}
            out.append((f"directed: parameter scenario from {Y} on the pre-computed function parameter ra0 = {fcn}", spec))
        # (c) an aggregation weighted by a function parameter that itself has a parameter dependency
        pops2 = ["pa", "pb"]
        spec = {"comps": [{"name": "c0", "kind": "normal", "databook": True, "init": {"pa": 100.0, "pb": 50.0}}, {"name": "c1", "kind": "normal", "databook": True, "init": {"pa": 10.0, "pb": 20.0}}],
                "characs": [], "pars": [_P("xd0", "probability", 0.3, pops2), _P("q0", "probability", r.choice([0.5, 1.0]), pops2),
                                        _P("xa0", "proportion", None, pops2, function=r.choice(["SRC_POP_AVG(xd0, wi0, zw0)", "TGT_POP_AVG(xd0, wi0, zw0)"]), databook=False),
                                        _P("zw0", "proportion", None, pops2, function="q0*c0/(c0+c1+1)", databook=False), _P("ra0", "rate", None, pops2, function="0.5*xa0", databook=False)],
                "transitions": [["c0", "c1", "ra0"]], "pops": pops2, "transfers": [], "settings": [start, start + 4 * dt, dt],
                "interactions": [{"name": "wi0", "pairs": [["pa", "pa", 1.0], ["pa", "pb", 0.5], ["pb", "pa", 0.2], ["pb", "pb", 1.0]]}]}
        spec["pars"][0]["value"] = {"pa": 0.3, "pb": 0.6}
        out.append(("directed: population aggregation weighted by a function parameter (zw0 = q0*c0/(c0+c1+1))", spec))
    if prop == "C06":
        # (g) ONE parameter scenario that overwrites a function parameter in two populations: the function is suspended in each of them from its first overwrite year on
        pops2 = ["pa", "pb"]
        Y = start + r.choice([2, 1, 3]) * dt
        spec = {"comps": [{"name": "c0", "kind": "normal", "databook": True, "init": {"pa": 100.0, "pb": 60.0}}, {"name": "c1", "kind": "normal", "databook": True, "init": {"pa": 10.0, "pb": 5.0}}],
                "characs": [{"name": "alive", "components": ["c0", "c1"], "denominator": None, "databook": False}],
                "pars": [_P("xd0", "probability", 0.4, pops2), _P("ra0", "rate", None, pops2, function=r.choice(["0.5*xd0", "0.3*c1/(alive+1)"]), databook=True)],
                "transitions": [["c0", "c1", "ra0"]], "pops": pops2, "transfers": [], "settings": [start, start + 6 * dt, dt],
                "scen": [{"par": "ra0", "pop": p_, "t": [Y], "y": [v_], "interp": "previous", "group": 0} for p_, v_ in (("pa", 0.25), ("pb", 0.05))]}
        for p_ in spec["pars"]:
            if p_["name"] == "ra0":
                p_["value"] = {}
        out.append((f"directed: one parameter scenario from {Y} on the function parameter ra0 in BOTH populations", spec))
        # (h) an output-only parameter that reads the flow along a link between two compartments of one duration group (a TimedLink)
        spec = {"comps": [{"name": "c0", "kind": "normal", "databook": True, "init": {"pa": 100.0}}, {"name": "t00", "kind": "normal", "databook": True, "init": {"pa": 30.0}},
                          {"name": "t01", "kind": "normal", "databook": True, "init": {"pa": 5.0}}, {"name": "k0", "kind": "sink"}],
                "characs": [], "pars": [_P("ra0", "rate", 0.3, pops), _P("ra1", "rate", r.choice([0.4, 0.8]), pops), _P("du0", "duration", r.choice([2, 3]) * dt, pops, timed=True),
                                        _P("xo0", "number", None, pops, function="t00:t01", databook=False), _P("xo1", "number", None, pops, function="ra1:flow + c0:t00", databook=False)],
                "transitions": [["c0", "t00", "ra0"], ["t00", "t01", "ra1"], ["t00", "k0", "du0"], ["t01", "k0", "du0"]], "pops": pops, "transfers": [], "settings": [start, start + 6 * dt, dt]}
        out.append(("directed: output-only parameters reading the flow along a TimedLink (t00:t01 inside one duration group)", spec))
    if prop in ("C06", "C13"):
        # (d) a dependency chain two deep below a program target, none of it depending on the state: tp0 (targeted) -> xb0 = 2*tp0 (no transition) -> ra0 = xb0 + 0.01 (transition)
        # (e) a program outcome on a function parameter that drives nothing (pure output), and an output that depends on it
        for variant in ("chain", "output-target"):
            Y = start + r.choice([2, 1, 3]) * dt
            if variant == "chain":
                pars = [_P("tp0", "probability", 0.05, pops, targetable=True), _P("xb0", "probability", None, pops, function="2*tp0", databook=False),
                        _P("ra0", "probability", None, pops, function="xb0+0.01", databook=False), _P("ra1", "rate", 0.1, pops)]
                tgt, label = "tp0", f"directed: dependency chain two deep below the program target tp0 (xb0 = 2*tp0, ra0 = xb0 + 0.01), programs from {Y}"
            else:
                pars = [_P("xd0", "probability", 0.3, pops), _P("tp0", "probability", None, pops, function="0.5*xd0", databook=False, targetable=True),
                        _P("xo0", "probability", None, pops, function="tp0+0.125", databook=False), _P("ra0", "rate", 0.2, pops), _P("ra1", "rate", 0.1, pops)]
                tgt, label = "tp0", f"directed: program outcome on the function parameter tp0 = 0.5*xd0 that drives no transition (and xo0 = tp0 + 0.125), programs from {Y}"
            spec = {"comps": [{"name": "c0", "kind": "normal", "databook": True, "init": {"pa": 100.0}}, {"name": "c1", "kind": "normal", "databook": True, "init": {"pa": 10.0}}],
                    "characs": [], "pars": pars, "transitions": [["c0", "c1", "ra0"], ["c1", "c0", "ra1"]], "pops": pops, "transfers": [], "settings": [start, start + 6 * dt, dt],
                    "progspec": {"programs": [{"name": "P0", "pops": pops, "comps": ["c0"], "uc_units": "$/person/year", "spend": r.choice([75.0, 30.0, 4000.0]), "uc": 1.0}],
                                 "covouts": [{"par": tgt, "pop": "pa", "inter": "additive", "imp": None, "baseline": r.choice([0.05, 0.1]), "progs": {"P0": r.choice([0.2, 0.4])}}],
                                 "instr": {"start": float(Y), "stop": None}}}
            out.append((label, spec))
    return out


def run_directed(ctx, prop):
    import atomica as at

    for k, (label, spec) in enumerate(directed_specs(ctx.rng, prop)):
        rp = {"kind": "spec", "id": f"directed{k}", "spec": spec, "prop": prop, "label": label}
        try:
            check_run(ctx, prop, lambda: build_from_spec(spec), label, rp)
            ctx.count("run.directed")
        except (ImplError, AssertionError, at.ModelError, at.InvalidFramework) as e:
            ctx.violation({"api": getattr(e, "where", "Model.process"), "case": "exception"}, f"{label}: {type(e).__name__}: {e}", rp)


# ----------------------------------------------------------------------------------------------------------------------
# library demos with program books
# ----------------------------------------------------------------------------------------------------------------------
_DEMOS = {}


def demo(name):
    import atomica as at

    if name not in _DEMOS:
        _DEMOS[name] = at.demo(name, do_run=False)
    return _DEMOS[name]


def gen_demo_case(r, name):
    """JSON-able description of one demo run: dt, instructions (start/stop, overwrites), optional scenario"""
    P = demo(name)
    ps = P.progsets[0]
    tv = P.settings.tvec
    t0, t1 = float(tv[0]), float(tv[-1])
    dt = r.choice([float(P.settings.sim_dt), 0.5, 0.25, 1.0]) if name != "tb" else float(P.settings.sim_dt)
    st = r.choice([t0, t0 + 1, t0 + 0.5 * (t1 - t0), t0 + 2.3, t0 - 1])
    stop = r.choice([None, None, st + 2, t1 - 1, st + 1.6])
    instr = {"start": float(st), "stop": None if stop is None else float(stop), "alloc": {}, "capacity": {}, "coverage": {}}
    for prog in ps.programs.values():
        s0 = lookup_prev(prog.spend_data, st) or 1000.0
        u0 = lookup_prev(prog.unit_cost, st) or 1.0
        x = r.random()
        if x < 0.3:
            instr["alloc"][prog.name] = _ser(r, lambda rr, s0=s0: float(s0 * rr.choice([0.0, 0.5, 1.0, 2.0, 10.0])), st, t1)
        elif x < 0.4:
            instr["capacity"][prog.name] = _ser(r, lambda rr, c0=s0 / u0: float(c0 * rr.choice([0.0, 0.5, 1.0, 3.0])), st, t1)
        elif x < 0.5:
            instr["coverage"][prog.name] = _ser(r, lambda rr: float(rr.choice([0.0, 0.2, 0.7, 1.0, 1.5])), st, t1)
    return {"demo": name, "dt": dt, "instr": instr}


def build_demo(case):
    import sciris as sc
    from atomica.programs import ProgramInstructions

    P = demo(case["demo"])
    settings = sc.dcp(P.settings)
    settings.update_time_vector(dt=case["dt"])
    i = case["instr"]

    def conv(d):
        return {k: to_ts(s) for k, s in d.items()} if d else None

    instr = ProgramInstructions(start_year=i["start"], stop_year=i.get("stop"), alloc=conv(i.get("alloc")), capacity=conv(i.get("capacity")), coverage=conv(i.get("coverage")))
    return settings, P.framework, P.parsets[0], P.progsets[0], instr


def run_demos(ctx, prop, plan):
    import atomica as at

    for name, n, max_ti in plan:
        for k in range(n):
            sub_seed = ctx.rng.randrange(1 << 30)
            rr = _random.Random(sub_seed)
            case = gen_demo_case(rr, name)
            rp = {"kind": "demo", "id": f"{name}:{sub_seed}", "case": case, "prop": prop}
            try:
                check_run(ctx, prop, lambda: build_demo(case), f"demo {name} (dt={case['dt']}, start={case['instr']['start']})", rp, max_ti=max_ti)
            except (ImplError, AssertionError, at.ModelError) as e:
                ctx.violation({"api": getattr(e, "where", "Model.process"), "case": "exception", "demo": name}, f"demo {name} with generated instructions: {type(e).__name__}: {e}", rp)
                continue
            ctx.count("run.demo." + name)


# ----------------------------------------------------------------------------------------------------------------------
# entry points
# ----------------------------------------------------------------------------------------------------------------------
def _gen_worker(sub_ctx, n, prop=None):
    run_generated(sub_ctx, prop, n)


def generated(ctx, prop, n):
    """generated models: sequential in the quick tier, forked workers (own seeded sub-contexts) in the thorough tier"""
    if not ctx.quick and hasattr(core, "parallel"):
        core.parallel(ctx, _gen_worker, n, n_workers=10, prop=prop)
    else:
        run_generated(ctx, prop, n)


def run_params(ctx, prop):
    run_directed(ctx, prop)
    if prop == "C13":
        generated(ctx, prop, ctx.n(60, 1500))
        run_demos(ctx, prop, [("udt", ctx.n(2, 12), None), ("tb_simple", ctx.n(1, 8), None), ("hypertension", ctx.n(1, 8), None), ("usdt", ctx.n(1, 8), None), ("hiv", ctx.n(1, 6), None), ("tb", ctx.n(0, 3), 12)])
    else:
        generated(ctx, prop, ctx.n(50, 1200))
        run_demos(ctx, prop, [("udt", ctx.n(1, 6), None), ("tb_simple", ctx.n(1, 6), None), ("hiv", ctx.n(0, 4), None), ("tb", ctx.n(0, 2), 10)])


def replay_params(ctx, prop, data):
    """re-run one recorded case; prints the disagreements; returns 1 if the implementation still fails"""
    rp = data["replay"]
    sub = core.Ctx(prop, "quick", ctx.seed)
    if rp.get("kind") == "spec":
        spec = rp["spec"]
        check_run(sub, rp.get("prop", prop), lambda: build_from_spec(spec), rp.get("label", "spec"), rp)
    elif rp.get("kind") == "generated":
        rr = _random.Random(rp["sub_seed"])
        spec = gen_spec(rr, rp["regime"], rp.get("prop", prop), rp.get("want_progs", True))
        if rp.get("spec_sha") and rp["spec_sha"] != spec_sha(spec):
            print(f"WARNING: the regenerated spec ({spec_sha(spec)}) differs from the recorded one ({rp['spec_sha']}): generator changed since the run")
        check_run(sub, rp.get("prop", prop), lambda: build_from_spec(spec), f"generated model {rp['sub_seed']}", rp)
    else:
        case = rp["case"]
        check_run(sub, rp.get("prop", prop), lambda: build_demo(case), f"demo {case['demo']}", rp)
    for v in sub.violations[:10]:
        print("violation:", v["key"], v["what"][:400])
    for b in sub.breaks[:10]:
        print("break:", b["what"][:400])
    bad = bool(sub.violations)
    print("FAILS" if bad else "passes")
    return 1 if bad else 0
