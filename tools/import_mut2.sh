#!/bin/bash
# tools/import_mut2.sh c06 -> copies /work/mut2/c06/out/k to seeded/C06-nk (round-2 seeded changes)
p="$1"; P=$(echo "$p" | tr a-z A-Z)
here="$(cd "$(dirname "$0")/.." && pwd)"
for d in /work/mut2/$p/out/*/; do
  k=$(basename "$d"); t="$here/seeded/$P-n$k"; mkdir -p "$t"
  cp "$d"/patch.diff "$d"/demo.py "$t"/ 2>/dev/null
  [ -f "$d/meta.json" ] && cp "$d/meta.json" "$t"/
  [ -f "$t/meta.json" ] || echo "{\"property\": \"$P\", \"summary\": \"\", \"needs\": \"\"}" > "$t/meta.json"
  (cd /repo && git apply --check "$t/patch.diff" 2>&1 | head -2) && echo "$P-n$k applies"
done
