#!/venv/bin/python
"""Regenerate /verif/MANIFEST.json from the table below (kept in one place so that it stays valid and current)."""
import json
import os
import sys

V = os.path.dirname(os.path.dirname(os.path.abspath(__file__)))
props = [json.loads(l) for l in open(os.path.join(V, "properties.jsonl"))]

COMMON_NOTE = ("Trusted: Lean 4.33 kernel + axioms propext/Classical.choice/Quot.sound only (audited by #print axioms on every run; no sorry/"
               "native_decide/bv_decide/added axioms); the rendering of the property as theorem statements; the correspondence harness "
               "(generators, exact float->rational conversion, driver parser, comparator tolerances); numpy/scipy/pandas/openpyxl/pickle/"
               "multiprocessing are observed, not modelled. ")

# property -> (claimed?, design_ref, technique, text, extra note)
CLAIMS = {
    "C03": dict(
        technique="Lean 4 refinement of the engine model to the documented conversion rules + theorems about the time-grid specification, ProjectSettings as a state machine and a closed-loop model of a whole simulation; correspondence: step-level trace refinement (mode B), whole-trajectory comparison with the closed-loop model, documented-conversion and aggregation oracles, grid and settings-history comparison (mode A)",
        text="Proof: (conversion) the engine model's cached fraction equals the documented rule written separately (Spec.fracRate p*dt/T, Spec.fracDuration dt/(d*T), Spec.amountNumber N*dt/T shared in proportion to source sizes; "
             "a source emits exactly N*dt/T), flows are stock x fraction when the fractions of a compartment sum to <= 1 and stock x fraction / sum otherwise (flow_probability/duration/number, flow_normalised), for every net and state; "
             "(grid) grid_exact/grid_length/grid_last_ge/grid_last_first/grid_prefix and the settings state machine (update_end_snapped, update_end_first) are proved for all start/end/dt over exact rationals; the implementation's "
             "time vector is compared entry-wise with the model on a table of start/end pairs x step sizes (incl. non-representable and non-dividing) "
             "plus a seeded random stream. The unit-conversion half of C03 is decided by the engine correspondence (mode B) and the documented-conversion oracle. "
             "(independent re-implementation) Closed.simulate runs whole simulations from the specification alone (data, calibration factors, parsed functions, limits, aggregations, transfers, initial state); "
             "simulate_is_process / closed_total / closed_nonneg / closed_jempty / evalPars_fixpoint / evalPars_clipped / evalPars_static / simulateN_prefix are proved for every specification and run length, "
             "and every stock row, link flow and parameter value of generated models is compared with it at every time index.",
        note="float rounding of start+k*dt vs numpy.linspace is measured (1e-9), not proved. Closed loop: scenario skip windows, derivative parameters and several population types are inside Closed.simulate (closed_skip_uses_data, closed_before_window_unchanged, closed_derivative_step/_run/_constant/_linear); programs are in ClosedProg (C13/C09); a derivative parameter with a skip window, transcendental functions and keyrings over 24 rows are outside (counted, not compared); exact rationals are cut at a bit budget and the computed prefix is compared.",
        design="8.C03"),
    "C06": dict(
        technique="Lean 4 theorems about the TimeSeries interpolation model (Atomica.Series) and a decision-logic model of the parameter pipeline (Atomica.Params) + correspondence with TimeSeries.interpolate/insert (mode A) and with every stored parameter value of real runs (mode C)",
        text="Proof (time-series half): interp_knot/between/outside/single/assumption, previous_knot/between/outside, insert_wf/insert_spec/clean_sorted, previous_prefix "
             "(+ needs-point witness) proved for all series; TimeSeries.interpolate (linear, previous) and insert are compared with the model on generated sparse series. "
             "Pipeline half: a decision-logic model of one parameter evaluation (Atomica.Params: data x calibration factors -> function of same-step values in execution order -> program outcome while programs are active -> "
             "scenario skip windows -> limits) with precedence_program/function/data/skip/aggregation, data_scaled, clip_before_use, evalStep_fixpoint/evalStep_function_fixpoint/evalStep_clipped proved for every dependency graph "
             "in topological order; every stored parameter value of generated, directed and library runs (with programs and parameter scenarios) is compared with it at every index, with direct oracles for programs, "
             "initial-size scaling, ratio characteristics and 'All' databook rows.",
        note="pchip/callable interpolation methods and NaN request times are not modelled.",
        design="8.C06"),
    "C11": dict(
        technique="Lean 4 theorems about the coverage model (Atomica.Coverage, exp abstract then instantiated with Real.exp) + correspondence with Program/ProgramSet coverage functions (mode A)",
        text="Proof: bounds, saturation and capacity-constraint caps, monotonicity in spending / antitonicity in unit cost, linear and nobody-eligible closed forms, one-off dt-independence "
             "and overwrite precedence are proved for all inputs over Q with exp abstract (positive, monotone, exp 0 = 1, Pade bound), and the assumptions are discharged for Real.exp. "
             "Program.get_capacity/get_prop_covered, ProgramSet.get_alloc/get_capacities/get_prop_coverage and Result.get_coverage are compared with the model.",
        note="libm exp enters as an oracle value; float cancellation in 2s/(1+e)-s measured to 1e-11.",
        design="8.C11"),
    "C01": dict(
        technique="Lean 4 model of the integration step (Atomica.Engine) + step-level trace refinement against Model.process (mode B) + conservation oracles",
        text="Proof-family check: every step of generated models (all compartment kinds, junction chains, duration groups, transfers, extreme/boundary regimes) is replayed through one exact "
             "model step (rationals) and compared to 1e-11; balance / junction pass-through / population-total oracles run on the implementation arrays. Conservation theorems about the model "
             "are listed in the evidence as they are discharged.",
        note="floating-point cancellation and overflow are outside the exact model.",
        design="8.C01"),
}

CLAIMS["C12"] = dict(
    technique="Lean 4 theorems about the coverage-outcome mixing model (Atomica.Covout) + correspondence with Covout.get_outcome (mode A)",
    text="Proof: for every number of programs, every coverage vector in [0,1]^n and each of the random, nested and additive interactions the combination weights are non-negative, "
         "sum to 1 with the empty combination, and have marginals equal to the coverages (weights_nonneg/weights_total/marginal); convexity, zero-coverage, single-program and "
         "best-is-farthest corollaries; monotonicity proved without explicit values (all interactions) and for random/nested with any monotone table; a kernel-checked witness shows "
         "monotonicity fails for additive-above-100% with explicit values (known finding). Covout.get_outcome is compared with the model on generated tables (exhaustive grid for n<=3 in the thorough tier).",
    note="numpy argsort tie order proved irrelevant (nested_loop_argsort); cases where float and exact ordering of |outcome-baseline| differ are counted ambiguous.",
    design="8.C12")

CLAIMS["C19"] = dict(
    technique="Lean 4 structural induction over a model of Python's expression AST (Atomica.Expr) + translator-generated whitelist table + correspondence with parse_function / evaluate_plot_string (modes A, F)",
    text="Proof: accepts_safe/accepts_iff_safe (accepted => every sub-term, at any depth, is a numeric constant, a name, an arithmetic/comparison node or a call of a whitelisted bare name), "
         "whitelist_safe over the whitelist regenerated from function_parser.py on every run, division rewriting, evaluation as rational arithmetic with sdiv (numerator 0 => 0) on scalars and arrays, "
         "exact dependency sets. parse_function is compared with the model on every ast.expr node class nested up to depth 3 (exhaustive over node types), generated arithmetic expressions and every "
         "function string of the repository's frameworks; side effects are watched in a scratch directory.",
    note="CPython's evaluation of whitelisted nodes and transcendental functions are trusted (opaque in the model); comparison tolerance from a running IEEE error bound.",
    design="8.C19")

CLAIMS["C17"] = dict(
    technique="Lean 4 theorems about a model of random-stream bookkeeping (Atomica.Rng: serial / forked-inherited / reseeded workers, retry loop, zero-sigma sampling) + correspondence over real serial and parallel sampled runs (mode E)",
    text="Proof: for every schedule (any number of workers, any assignment of samples) reseeded workers consume pairwise distinct stream segments while inherited generator state makes the first task of "
         "every worker collide (the model of the unfixed code; it predicted the observed collision patterns exactly); zero-uncertainty sampling is the identity; ProgramSet.sample is total; the retry loop "
         "draws fresh inputs. The real Project.run_sampled_sims and Ensemble.run_sims are run serially and in parallel (1..16 workers), sampled inputs recorded inside the workers and compared for "
         "pairwise distinctness; sources are deep-snapshotted before and after.",
    note="PARTIAL: fork, the OS scheduler, the entropy source and the statistical quality of the generator are runtime; 'independent' is modelled as disjoint stream segments plus an injectivity hypothesis evaluated on the real draws of every run.",
    design="8.C17")

CLAIMS["C20"] = dict(
    technique="Lean 4 theorems about the aggregation and cascade model (Atomica.Aggregate, Atomica.Cascade; map form vs the code-shaped fold) + correspondence with PlotData / get_cascade_vals / get_cascade_data (modes A, E)",
    text="Proof: sums of parts, averages and weighted averages between the extremes, request-independence of every (output, population group) entry (depends_only_on_request; the code-shaped fold equals the map form "
         "exactly when the default method is not carried over, with kernel-checked witnesses of the former defect), additivity of linear interpolation and trapezoidal time aggregation, monotone stage values for duplicate-free nested cascades, "
         "cascade data = sum of constituents. PlotData is compared with the model for all orders and subsets of small output lists, all population aggregations, explicit and default methods, interpolation and time "
         "aggregation; cascades framework-defined and ad hoc; plotting/export calls leave the Result bit-identical (snapshots).",
    note="matplotlib rendering and Excel formatting not modelled (only non-modification); formula outputs are oracle inputs; first pass of PlotData (link summation / dt, compartment-size weights, units) re-implemented in the harness.",
    design="8.C20")

CLAIMS["C14"] = dict(
    technique="Lean 4 theorems about the allocation-constraint model (Atomica.Alloc, SLSQP as an arbitrary oracle) + correspondence with constrain_sum_bounded / TotalSpendConstraint / SpendingPackageAdjustment (mode A)",
    text="Proof: for EVERY solver answer a returned allocation lies within all bounds and sums to the total within the stated tolerance, an already-feasible allocation is returned unchanged, every other outcome is "
         "an explicit signal (constrain_post/idempotent/signals); the feasibility pre-check is exact (precheck_exact, hard_feasible) and is evaluated before any objective evaluation; package shares and totals stay within limits. "
         "The real functions are called with scipy.optimize.minimize wrapped so that the solver's answer is fed to the model; results, exception classes and write-backs into the instructions are compared.",
    note="SLSQP convergence (whether a feasible proposal is wrongly rejected) is not modelled - only safety of what is returned.",
    design="8.C14")

CLAIMS["C15"] = dict(
    technique="Lean 4 theorems about the ASD accept loop, the objective sum and a statement-language model of try/finally brackets, with skeletons regenerated from the Python AST on every run (translator) + correspondence over real optimisations/calibrations with crash injection (modes A, E, F)",
    text="Proof: asd_invariant/asd_returns_best for every proposal sequence of every length (objective never worse, values inside the box, hard targets kept); objective_is_sum; restores_sound for every crash point, "
         "applied by `decide` to the skeletons of calibrate / Project.run_optimization / reconcile regenerated from the current source (a skeleton that no longer restores breaks the obligation and yields the crash point as replay); "
         "works-on-copy at protocol level. Real ASD traces are logged and replayed through the model; objectives re-evaluated independently from Results; caller objects and project.settings snapshotted; an exception is "
         "injected at the k-th simulation for every k of a reference run.",
    note="sciris.asd is third-party: only clip/accept rule modelled and checked on logged traces; pso/hyperopt only statically; aliasing below protocol level observed by snapshots.",
    design="8.C15")

CLAIMS["C16"] = dict(
    technique="Lean 4 theorems about a model of the time-dependent-values table (encode/decode), the y-factor table (save/load) and the Covout cache state machine + correspondence with the real writers/readers through xlsxwriter/openpyxl, with whole-project spreadsheet/pickle round trips and paired simulations (modes A, E)",
    text="Proof: tdve_roundtrip (decode (encode e) = canon e for every well-formed entry), tdve_content, tdve_idempotent; yfactor_roundtrip / yfactor_transfer / load_skips_unknown / load_keeps_missing for every parameter set and file; "
         "cache_coherent (the derived tables equal what the constructor derives from the visible data after every operation sequence), behaves_as_visible, behaves_as_reimport; kernel-checked witnesses for the defects found. "
         "Real write()/from_rows(), calibration_spreadsheet()/load_calibration() and Covout/ProgramSet operations are diffed against the model; every library project and generated databooks/program books are exported, re-imported, "
         "compared as content and simulated on both sides (bit-identical on the second round trip); Project/Result save/load compared bit for bit.",
    note="Partial: xlsxwriter/openpyxl/pandas cell I/O, '%.16G' number formatting, pickle and migration are runtime behaviour the model does not contain; they are sampled by mode E only. Transfer/interaction tables and the program-effects rows are compared as content, not modelled.",
    design="8.C16")

CLAIMS["C05"] = dict(
    technique="Lean 4 induction over time on a keyring model (Atomica.Timed) refined to the engine model's timed compartments + row-count table and impulse-response correspondence with TimedCompartment (modes A, B)",
    text="Proof: rows_spec (n = k when D is k steps up to rounding, 1 when D < dt); keyring_closed_form / flush_exact / no_early_release / occupancy_bound for every n >= 1 and every inflow history by induction on time; "
         "the abstract keyring is proved to be what Engine.updateComps does to a timed compartment (keyring_refines_engine, timed_step, tlink_keeps_row, untimed_restarts, group_step), and the closed forms are lifted to every "
         "reachable state of Engine.step (engine_flush_exact, engine_release_exact, engine_occupancy_bound_general, engine_group_release_exact). The allocated row count of real models is compared with the model over an exhaustive "
         "(k, dt) table with D formed in floating point; mode B on duration-group models; impulse-response oracle on the implementation. Groups whose members are linked through junctions of the group (plain with normalised "
         "proportions, residual, chained): ClosedGroupJ, group_step_junctions, engine_group_release_exact_junctions, group_rows_recorded for every reachable state; the same statements are evaluated on the implementation's arrays "
         "for every generated group that satisfies the driver-checked hypothesis (group-shift oracle).",
    note="groups with ordinary outflows leaving the group, or with row counts differing between populations, are covered by the one-step theorems + correspondence, not by a closed form.",
    design="8.C05")

CLAIMS["C10"] = dict(
    technique="Lean 4 theorems about restarting the engine model from a saved state (semigroup law of Engine.runFrom/process, saved-table round trip) + correspondence over real restart histories (mode E)",
    text="Proof: runFrom_drop / restart_continues(_wf) / restart_chain(_wf): restarting process from the state at index k reproduces the tail of the trajectory (stocks row by row, flows) for every k, any chain of restarts, "
         "with flushAll proved to be the identity on empty junctions and junctions proved empty after start-up; apply_fromResult / row_structure_kept / restart_from_saved(_wf) through the saved table; table_roundtrip for the spreadsheet layout; "
         "kernel-checked witnesses of the two former defects. Real runs are restarted with ParameterSet.set_initialization at every grid year, in chains, on models with junctions, duration groups, transfers and programs, "
         "and compared at every index >= Y; the spreadsheet path calibration_spreadsheet -> load_calibration is compared to 1e-15.",
    note="the parameter pipeline is an abstract function of (absolute index, state) in the closed-loop theorems; hidden state of the real pipeline is what the mode E comparison looks for; xlsx 16-digit precision observed.",
    design="8.C10")

CLAIMS["C07"] = dict(
    technique="Lean 4 theorems about the initialization acceptance model (Atomica.Init; the least-squares solver is an arbitrary oracle) and characteristic expansion + correspondence with Population.initialize_compartments / Characteristic.vals (modes A, B)",
    text="Proof: for EVERY candidate solution x, acceptance implies non-negative stocks and every databook row reproduced within 1e-6 (accept_sound, accept_ok_iff), every failing test implies one of the three dedicated refusals "
         "(refuse_kinds, refuse_complete, no_assignment_refused); right-hand side scales with both calibration factors and the fraction's denominator; get_included_comps is the transitive closure with multiplicity (expand_correct, row_expSum); "
         "reported characteristic = sum of members / denominator with 0/0 = 0 (charac_sum, value_*); kernel-checked witnesses of the three former defects. The harness wraps numpy.linalg.lstsq during Model construction, feeds A, b and the "
         "returned x to the model, compares accept/refuse kind and stocks, and checks index-0 sums and characteristic consistency at every index of processed Results.",
    note="LAPACK lstsq not modelled: 'an assignment exists => accepted' is only observed; float rounding at the acceptance thresholds counted as ambiguous.",
    design="8.C07")

CLAIMS["C08"] = dict(
    technique="Lean 4 theorems about the unlink/relink copy protocol (Atomica.Protocol.Graph) + correspondence over histories of runs, copies, pickles and fresh processes with deep structural snapshots (mode E)",
    text="PARTIAL by nature: determinism and input preservation of the implementation are runtime facts; what is proved is the one piece of copy logic that is logic: relink (unlink m) restores every reference, lookup table and parsed function "
         "when ids are pairwise distinct (relink_unlink, unlink_no_refs, idempotence under the guards, copy_model, ids_distinct_of_build, with kernel-checked witnesses that the hypotheses are needed), and that Engine.process is a function (run_function, copy_commutes). "
         "The property itself is decided at the strength of sampled histories: 30 (quick) / 600 (thorough) histories over {run A, run B, run with programs, deepcopy then run, pickle round trip then run, Result save/load, fresh subprocess}, "
         "every observation compared bit-for-bit with the first for the same input, every input object deep-hashed before and after each call; the ids hypothesis is evaluated on every extracted model.",
    note="Python aliasing, pickling, copy.deepcopy, module-level state and BLAS threading are runtime; frameworks calling rand/randn excluded as the property says.",
    design="8.C08")

CLAIMS["C13"] = dict(
    technique="Lean 4 decision-logic model of the per-step parameter pipeline with programs (Atomica.Params) and a closed-loop model of whole simulations with programs (Atomica.ClosedProg) + parameter-step refinement against Model.update_pars and Result.get_coverage/get_alloc (mode C) and whole-trajectory comparison",
    text="Proof: program_value (active and targeted => clip(convert(outcome(coverage of this step)))), coverage_from_spending / coverage_overwrite, the three unit conversions, frame / frame_inactive (untargeted or outside start/stop: "
         "as without programs), report_eq_used / report_capacity / report_alloc (what the finished Result reports is what the loop used, when no target is a junction; junction_gap witness), number_units_roundtrip. "
         "For EVERY (parameter, population, time index) of processed models - generated with functions, limits, calibration factors and program sets, and library demos with instructions - the stored value is compared with the model; "
         "ProgramSet.get_outcomes is wrapped to record in-loop coverage and program values, which are compared with the model and with Result.get_coverage / get_alloc. "
         "Closed loop with programs (ClosedProg.simulate, from the specification alone): closedprog_sets_targets(_number/_perTime/_other/_run), eligible_of_state, coverage_of_state / coverage_of_overwrite, closedprog_untargeted_rule, "
         "closedprog_is_closed_before_start, closedprog_after_stop and the lifted L1 theorems are proved for every specification and run length; every stock row, link flow and parameter value of generated models with program sets is compared at every index.",
    note="in the per-step model parameter functions, exp and covout outcomes are oracle inputs (their own semantics are C19/C11/C12); derivative parameters and junction targets excluded by hypothesis and counted. In the closed loop saturation (exp) is not modelled (program sets with saturation are counted and skipped there).",
    design="8.C13")
CLAIMS["C06"]["text"] = ("Proof: (series) interp_knot/between/outside/single/assumption, previous_*, insert_wf/insert_spec/clean_sorted, previous_prefix for all series; (pipeline) precedence_program/function/data/skip/aggregation, "
    "data_scaled, clip_before_use, evalStep_fixpoint (topological order => every function parameter equals the clip of its function on the final same-step values of its dependencies), with the faithful evalOneCurrent proved equal to the "
    "specification except for the former precompute-skip defect. TimeSeries.interpolate/insert are compared with the model on generated sparse series; every (parameter, population, time index) of processed generated and library models is "
    "compared with the pipeline model; population aggregations are recomputed independently from the interaction data.")
CLAIMS["C06"]["technique"] = "Lean 4 theorems about the TimeSeries interpolation model and the parameter-pipeline decision logic (Atomica.Series, Atomica.Params) + correspondence with TimeSeries.interpolate and with every stored parameter value of processed models (modes A, C)"

CLAIMS["C09"] = dict(
    technique="Lean 4 causality theorems about the engine run and a scenario/gating model (Atomica.Scenario) + correspondence over paired baseline/intervention runs (modes A, C, E)",
    text="Proof: run_causal / closed_causal / process_causal (parameter policies that agree before index n give identical stocks and flows before n, for any end year, including the start-up flush), end_extension / grid_extension "
         "(the longer run restricted to the shorter grid is the shorter run), gating_before_start / gating_after_stop(_data), previous_prefix_many (stepped series that state the value in force), scenario_prefix / scenario_agreeAt "
         "(ParameterScenario.get_parset keeps the baseline at every grid time before Y and does not skip the function there), and the no_effect_before_start corollaries per intervention kind. Baseline and intervention runs are paired on "
         "generated models and library demos for program start/stop years, spending/capacity/coverage overwrites, parameter scenarios (linear and stepped; data, function, transfer and interaction parameters), Y on and off the grid, "
         "and every output before Y must be identical; end-year extension is compared to 1e-12. Closed loop with programs: closedprog_is_closed_before_start / closedprog_prefix_before_start / closedprog_stock_at_start / "
         "closedprog_instructions_agree_before / closedprog_after_stop for every specification and run length, with whole-trajectory comparison against real runs.",
    note="precompute/dynamic classification of parameters is not modelled (pairs where it differs are counted and still compared exactly); pchip/callable smoothing outside the model.",
    design="8.C09")

CLAIMS["C02"] = dict(
    technique="Lean 4 invariants of the engine step (Atomica.Engine) lifted to every reachable state by induction + step-level trace refinement against Model.process with extreme/boundary regimes (mode B)",
    text="Proof: for every well-formed net, every parameter vector and every non-negative state: cached fractions are >= 0 whatever the parameter's sign (convert_nonneg, neg_param_zero_flow), flows are >= 0, nobody is over-drawn from any "
         "row however large the requests (resolve_no_overdraw), competing outflows keep their ratios per elapsed-time bin (resolve_ratio, resolve_common_factor), a row whose requests exceed 1 is emptied exactly (rescale_exact), "
         "timed row 0 is emptied incl. the flush link, next stocks are >= 0 (step_nonneg) and so is every reachable state (run_nonneg); the step is defined (no division by zero = never NaN) exactly unless a plain junction with "
         "zero proportion sum receives people (flows_defined); in exact arithmetic the numerical-artifact clip never fires (step_clip_inactive). Mode B on generated models with rates >> 1/dt, durations << dt, numbers >> stock, "
         "empty compartments, negative function values; oracles for finiteness, non-negativity, over-draw, ratios, zero flow on negative parameters.",
    note="double overflow/underflow cannot be exhibited in Q (the two overflow defects found were found by the correspondence + finiteness oracle).",
    design="8.C02")
CLAIMS["C04"] = dict(
    technique="Lean 4 theorems about junction balancing and the initial flush along the topological junction order (Atomica.Engine.balanceAll/flushAll) + step-level trace refinement on junction-heavy models (modes B, D)",
    text="Proof: updateComps never writes a junction, so after the start-up flush every junction is empty along every run (junction_always_empty); out_l = inflow * p_l / sum(p) for plain junctions, the three residual cases, zero "
         "proportions send nothing (balance_plain, balance_residual_lt/eq/gt, balance_zero_some); for any well-formed net whose junction order is topological every junction - chains, fans, diamonds of any depth, row by row inside duration "
         "groups - passes on exactly what it receives in the FINAL flow (balanceAll_passthrough, balance_chain); the initial flush empties every junction, preserves the grand total and moves content only downstream (flush_empties, flush_total, "
         "flush_only_downstream, flush_noop_of_empty). Mode B on generated frameworks with single/chain/fan/diamond junctions, residual and plain, sum p <, =, > 1, time-varying, state-dependent and program-driven proportions, inside "
         "and outside duration groups; the topological-order hypothesis is evaluated on every extracted _exec_order['junctions'].",
    note="networkx.topological_sort is trusted to return some order; the order it returned is checked. Dust-level inflow at a junction with all-zero proportions is counted ambiguous.",
    design="8.C04")

CLAIMS["C18"] = dict(
    technique="Lean 4 model of the framework validation rules (Atomica.Rules) proved equivalent to a declarative statement of the documented rules + a translator-generated table of every error-formatting expression (kernel `decide`) + correspondence over a catalogue of single-rule mutations of generated and library files (modes A, E, F)",
    text="PARTIAL for the readers as a whole (pandas/openpyxl parsing is only reached by the mutation stream). Proved: validate_iff_documented (the rule model accepts exactly the frameworks satisfying the documented rules, every rejection carries a "
         "dedicated rule), accepted_gives_WF / accepted_idsNodup (an accepted framework instantiated with any populations yields a net satisfying the engine theorems' structural hypotheses), cascade_nested_sound, acyclicity and name-check lemmas, "
         "and errors_wellformed: for every `raise X(<fmt> % <args>)` / .format in framework.py, data.py, excel.py, programs.py, parameters.py, cascade.py of the CURRENT source (table regenerated on every run) placeholders = arguments and the "
         "argument tuple is parenthesised. Correspondence: generated valid frameworks must be accepted, produce a blank databook that reads back, and run once filled; each of 170 framework, 31 databook and 26 program-book single-rule "
         "mutations must yield the dedicated InvalidFramework / InvalidDatabook / InvalidProgramBook / InvalidCascade - any other exception class or silent acceptance is a violation naming the mutation.",
    note="_sanitize_dataframe, _assign_junction_duration_groups, the Plots sheet and the databook/progbook readers are not in the Lean model; rule order is compared with the implementation's message by regex.",
    design="8.C18")

NA_DEFAULT = "not yet claimed: model, theorems and correspondence under construction (see DESIGN.md section 8)"
NA = {}


def main():
    checks = []
    na = []
    for p in props:
        pid = p["id"]
        mod = os.path.join(V, "harness", "props", pid.lower() + ".py")
        c = CLAIMS.get(pid)
        if c and os.path.exists(mod):
            checks.append({
                "property_id": pid,
                "quick_cmd": f"./check {pid} --tier quick",
                "thorough_cmd": f"./check {pid} --tier thorough",
                "evidence_file": f"evidence/{pid}.json",
                "replay_cmd_template": f"./check {pid} --replay {{path}}",
                "engine": "lean-model+harness",
                "level_claimed": {"category": "proof", "text": c["text"], "design_ref": "DESIGN.md " + c.get("design", "8")},
                "level_note": COMMON_NOTE + c.get("note", ""),
                "technique": c["technique"],
            })
        else:
            na.append({"property_id": pid, "reason": NA.get(pid, NA_DEFAULT)})
    m = {
        "version": 1,
        "setup_cmd": "./setup.sh",
        "hooks": {
            "guard": "ATOMICA_VERIF",
            "enable": "checks export ATOMICA_VERIF=1; no hook in /repo is needed (the harness observes the code from outside, wrapping callees at run time)",
            "baseline_off_cmd": "cd /repo && /venv/bin/python -m pytest -ra -q -p no:cacheprovider --timeout=900 --continue-on-collection-errors",
            "source_commits": [],
            "add_only": True,
        },
        "engines": [
            {"name": "lean-model+harness", "path": "lean/ + harness/", "serves_properties": [c["property_id"] for c in checks],
             "kind_free_text": "Lean 4 executable model (AtomicaModel, core only), proofs (AtomicaProofs, single Mathlib modules), compiled line-protocol driver; Python harness running the real atomica in-process and diffing against the driver"},
        ],
        "checks": checks,
        "notes": "Checks are added as their model, theorems and correspondence are built; see DESIGN.md and notes/.",
        "not_applicable": na,
    }
    json.dump(m, open(os.path.join(V, "MANIFEST.json"), "w"), indent=1)
    try:
        import jsonschema
        jsonschema.validate(m, json.load(open("/root/.vp/MANIFEST.schema.json")))
        print("MANIFEST valid;", len(checks), "checks,", len(na), "not_applicable")
    except ImportError:
        print("written (jsonschema unavailable)")


if __name__ == "__main__":
    main()
