#!/bin/bash
# tools/seeded_run_wt.sh <seeded-id> [tier]  -- like seeded_run.sh, but applies the patch in a scratch worktree of /repo (outside /repo and /verif)
# and points the check at it (ATOMICA_REPO + PYTHONPATH), so that several seeded changes can be tried at the same time. Not for properties
# with a translator (C15, C18, C19: their generated Lean files are shared) -- use seeded_run.sh for those.
set -u
id="${1:?usage: tools/seeded_run_wt.sh <id> [quick|thorough]}"; tier="${2:-quick}"
here="$(cd "$(dirname "$0")/.." && pwd)"
d="$here/seeded/$id"
[ -f "$d/patch.diff" ] || { echo "no such seeded change: $id"; exit 2; }
wt="/var/tmp/swt_$id"
git -C /repo worktree add --detach "$wt" >/dev/null 2>&1 || { echo "cannot create worktree"; exit 2; }
trap 'git -C /repo worktree remove --force "$wt" >/dev/null 2>&1; rm -rf "$wt"' EXIT
git -C "$wt" apply "$d/patch.diff" || { echo "$id: patch does not apply"; exit 2; }
[ -n "${PROPS:-}" ] && props="$PROPS" || props=$(/venv/bin/python -c "import json,sys; m=json.load(open('$d/meta.json')); print(' '.join([m['property']]+m.get('also',[])))")
for p in $props; do
  echo "=== $id : check $p ($tier)"
  (cd "$here" && ATOMICA_REPO="$wt" PYTHONPATH="$wt" VERIF_EVIDENCE_SUFFIX=".seeded" ./check "$p" --tier "$tier" 2>&1 | grep -E "VIOLATION|KNOWN-FINDING|what:|broken:|^\[$p\]|INTERNAL" | head -12)
done
