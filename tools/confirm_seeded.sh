#!/bin/bash
# tools/confirm_seeded.sh <dir containing patch.diff, demo.py, meta.json> [--no-tests]
# Confirms in a scratch worktree (outside /repo and /verif) that the change (1) applies, (2) demo passes without it and fails with it,
# (3) atomica's pinned baseline tests still pass with it. Prints a one-line verdict and writes <dir>/confirm.json. Removes the worktree.
set -u
d="$(cd "$1" && pwd)"; notests="${2:-}"
wt="/var/tmp/confirm_$$_$(basename "$(dirname "$d")")_$(basename "$d")"
git -C /repo worktree add --detach "$wt" >/dev/null 2>&1 || { echo "cannot create worktree"; exit 2; }
cleanup() { git -C /repo worktree remove --force "$wt" >/dev/null 2>&1; rm -rf "$wt"; }
trap cleanup EXIT
run_demo() { (cd "$wt" && PYTHONPATH="$wt" MPLBACKEND=Agg timeout 900 /venv/bin/python "$d/demo.py" > "$d/demo_$1.log" 2>&1); echo $?; }
clean_rc=$(run_demo clean)
if ! git -C "$wt" apply "$d/patch.diff" 2>/dev/null; then echo "$d: PATCH-DOES-NOT-APPLY"; echo '{"ok": false, "why": "patch does not apply"}' > "$d/confirm.json"; exit 1; fi
mut_rc=$(run_demo mutant)
tests="skipped"; missing="[]"
if [ "$notests" != "--no-tests" ]; then
  # only the pinned baseline tests (stable_pass of /root/.vp/BASELINE.json) are run: they are what "the existing tests pass" is measured by
  (cd "$wt" && env -u ATOMICA_VERIF PYTHONPATH="$wt" /venv/bin/python - > "$d/tests.log" 2>&1 <<'PY'
import json, subprocess, sys, os
base = json.load(open('/root/.vp/BASELINE.json'))['stable_pass']
files = sorted({b.split('::')[0].replace('.', '/') + '.py' for b in base})
files = [f for f in files if os.path.exists(f)]
sys.exit(subprocess.call([sys.executable, '-m', 'pytest', '-q', '-p', 'no:cacheprovider', '--timeout=900', '--continue-on-collection-errors', '--junitxml=junit_confirm.xml'] + files))
PY
  )
  missing=$(/venv/bin/python - "$wt/junit_confirm.xml" <<'PY'
import json, sys, xml.etree.ElementTree as ET
base=set(json.load(open('/root/.vp/BASELINE.json'))['stable_pass'])
passed=set()
try:
    for tc in ET.parse(sys.argv[1]).iter('testcase'):
        if not any(ch.tag in ('failure','error','skipped') for ch in tc): passed.add(tc.get('classname')+'::'+tc.get('name'))
    print(json.dumps(sorted(base-passed)))
except Exception as e:
    print(json.dumps(["<no junit: %s>" % e]))
PY
)
  tests="ran"
fi
ok=false
if [ "$clean_rc" = "0" ] && [ "$mut_rc" != "0" ] && [ "$missing" = "[]" ]; then ok=true; fi
echo "{\"ok\": $ok, \"demo_clean_rc\": $clean_rc, \"demo_mutant_rc\": $mut_rc, \"tests\": \"$tests\", \"baseline_missing\": $missing}" > "$d/confirm.json"
echo "$d: ok=$ok demo clean=$clean_rc mutant=$mut_rc tests=$tests missing=$missing"
