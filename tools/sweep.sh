#!/bin/bash
# usage: tools/sweep.sh <quick|thorough> <seed>...   -- every check, one verdict line each (used to look for false alarms across seeds)
tier=$1; shift
cd /verif
for s in "$@"; do for p in C01 C02 C03 C04 C05 C06 C07 C08 C09 C10 C11 C12 C13 C14 C15 C16 C17 C18 C19 C20; do
  ./check $p --tier $tier --seed $s 2>&1 | grep -E "^\[$p\]|VIOLATION|INTERNAL|Traceback" | sed "s/^/seed=$s /"
done; done
