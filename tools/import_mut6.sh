#!/bin/bash
# tools/import_mut6.sh c06 -> copies /work/mut6/c06/out/k to seeded/R6-c06-k (round-6 seeded changes), confirms each (tools/confirm_seeded.sh)
# and runs the quick check of its property against it in a scratch worktree (tools/seeded_run_wt.sh).  Output: one log per change in /var/tmp/r6_<id>.log
p="$1"; P=$(echo "$p" | tr a-z A-Z)
here="$(cd "$(dirname "$0")/.." && pwd)"
for d in /work/mut6/$p/out/*/; do
  k=$(basename "$d"); id="R6-$p-$k"; t="$here/seeded/$id"
  [ -f "$d/patch.diff" ] && [ -f "$d/demo.py" ] || { echo "$id: incomplete, skipped"; continue; }
  mkdir -p "$t"; cp "$d"/patch.diff "$d"/demo.py "$t"/
  [ -f "$d/meta.json" ] && cp "$d/meta.json" "$t"/ || echo "{\"property\": \"$P\", \"summary\": \"\", \"needs\": \"\"}" > "$t/meta.json"
  ( "$here/tools/confirm_seeded.sh" "$t"; "$here/tools/seeded_run_wt.sh" "$id" quick ) > /var/tmp/r6_$id.log 2>&1 &
done
wait
for f in /var/tmp/r6_R6-$p-*.log; do echo "--- $f"; cat "$f"; done
