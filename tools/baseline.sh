#!/bin/bash
# Run atomica's pinned baseline suite with the hook guard OFF and compare with /root/.vp/BASELINE.json.
# usage: tools/baseline.sh [tag]   -> prints missing baseline tests (must be empty)
tag="${1:-run}"
out=/var/tmp/baseline_$tag
cd /repo
env -u ATOMICA_VERIF /venv/bin/python -m pytest -ra -q -p no:cacheprovider --timeout=900 --continue-on-collection-errors --junitxml=$out.xml > $out.log 2>&1
/venv/bin/python - "$out.xml" <<'PY'
import json, sys, xml.etree.ElementTree as ET
base=set(json.load(open('/root/.vp/BASELINE.json'))['stable_pass'])
passed=set()
for tc in ET.parse(sys.argv[1]).iter('testcase'):
    if not any(ch.tag in ('failure','error','skipped') for ch in tc): passed.add(tc.get('classname')+'::'+tc.get('name'))
print('passed',len(passed),'baseline',len(base),'missing from baseline:',sorted(base-passed))
PY
rm -f /repo/test.xlsx
