#!/bin/bash
# tools/seeded_run.sh <seeded-id> [tier]  -- apply /verif/seeded/<id>/patch.diff to /repo, run the check(s) of the property it
# breaks (meta.json "property", optional "also"), print the verdict lines, and ALWAYS undo the patch afterwards.
set -u
id="${1:?usage: tools/seeded_run.sh <id> [quick|thorough]}"; tier="${2:-quick}"
here="$(cd "$(dirname "$0")/.." && pwd)"
d="$here/seeded/$id"
[ -f "$d/patch.diff" ] || { echo "no such seeded change: $id"; exit 2; }
if ! git -C /repo diff --quiet; then echo "/repo has uncommitted changes; refusing"; exit 2; fi
[ -n "${PROPS:-}" ] && props="$PROPS" || props=$(/venv/bin/python -c "import json,sys; m=json.load(open('$d/meta.json')); print(' '.join([m['property']]+m.get('also',[])))")
git -C /repo apply "$d/patch.diff" || { echo "patch does not apply"; exit 2; }
trap 'git -C /repo checkout -- . ; git -C /repo clean -fdq -- atomica >/dev/null 2>&1; git -C "$here" checkout -- lean/AtomicaModel/Generated' EXIT   # the translators wrote the mutant's tables: put the committed ones (unchanged tree) back
rc_all=0
for p in $props; do
  echo "=== $id : check $p ($tier)"
  (cd "$here" && VERIF_EVIDENCE_SUFFIX=".seeded" ./check "$p" --tier "$tier" 2>&1 | grep -E "VIOLATION|KNOWN-FINDING|what:|broken:|^\[$p\]|INTERNAL" | head -12)
done
