#!/bin/bash
# MANIFEST.setup_cmd: build the Lean model, proofs and driver from files on disk only (offline).
set -e
here="$(cd "$(dirname "$0")" && pwd)"
cd "$here/lean"
lake build AtomicaModel AtomicaProofs driver
echo "ping ok" | .lake/build/bin/driver
